// C06 harness (unit c06_hierarchy): Cell::get_polygons / get_flexpaths / get_robustpaths / get_labels,
// Cell::flatten and Cell::copy_from on generated hierarchies, against the model of coq/Hierarchy.v.
//
// payload := FL flags HIER QUERY
//   flags : 1 = some reference is reflected, 2 = some reference has a negative magnification,
//           4 = some FlexPath element has a non-zero offset   (read by checks/c06.py to recognise a regression of finding F7)
//   HIER  := H ncells { C nel ELEM^nel nref REF^nref }^ncells          (cell ids 0..ncells-1, 0 = top)
//   ELEM  := P tag REP n (x y)^n
//          | F REP sw nsp (x y)^nsp ne { tag endtype extu extv (hw off)^nsp O n (x y)^n }^ne
//          | R REP sw t0 t1 t2 t3 t4 t5 ws os x0 y0 nseg (x y)^nseg ne { tag endtype extu extv (w o)^(nseg+1) O n (x y)^n }^ne
//          | L tag REP ox oy ANG mag xr
//            (O ... = outline of that path element in its own cell as the library computes it; only the model reads it,
//             for get_polygons(include_paths = true))
//   REF   := target REP ox oy ANG mag xr        (target -1: a reference by name to a cell that does not exist)
//   REP   := N | T cols rows sx sy | G cols rows v1x v1y v2x v2y | E n (x y)^n | EX n c^n | EY n c^n
//   ANG   := cn sn d
//   QUERY := Q cell what apply_repetitions depth filter flat
//            what in {P, PP (polygons with paths), F, R, L}; filter = - or tag (hex); flat 0 = as built,
//            1 = after flatten(true), 2 = after flatten(false)
// kinds:
//   get     I: the returned elements, one item each (path elements separately), with the repetition left attached,
//              as a sorted multiset
//   shapes  I: the shapes the result describes (attached repetitions expanded with the library's apply_repetition)
//           P: (apply_repetitions = false, or after flatten) the same multiset as the query with repetitions applied
//              on the cell as built
//   copy    I: the cell's own elements after every field of a deep copy_from copy was overwritten;  P: unchanged
// numbers: integers n meaning n * 2^-24, hex; checks/c06.py compares multisets allowing +-2 units.
#include <algorithm>
#include <cmath>
#include <sstream>
#include <gdstk/gdstk.hpp>
#include "common.hpp"

using namespace gdstk;

static const double GRID = 16777216.0;
static std::string g(double x) { return hex_i64((int64_t)llround(x * GRID)); }

struct Tok {
    std::vector<std::string> t;
    size_t i = 0;
    explicit Tok(const std::string& s) {
        std::istringstream is(s);
        std::string w;
        while (is >> w) t.push_back(w);
    }
    std::string s() { return i < t.size() ? t[i++] : std::string(); }
    double d() { return bits_dbl(strtoull(s().c_str(), NULL, 16)); }
    long n() { return strtol(s().c_str(), NULL, 10); }
    uint64_t h() { return strtoull(s().c_str(), NULL, 16); }
    Vec2 v() {
        double x = d();
        double y = d();
        return Vec2{x, y};
    }
};

struct Ang {
    long cn, sn, dd;
    double val() const { return atan2((double)sn, (double)cn); }
    double c() const { return (double)cn / (double)dd; }
    double s() const { return (double)sn / (double)dd; }
    std::string str() const { return std::to_string(cn) + " " + std::to_string(sn) + " " + std::to_string(dd); }
};
static Ang read_ang(Tok& t) {
    Ang a;
    a.cn = t.n();
    a.sn = t.n();
    a.dd = t.n();
    return a;
}

static void read_rep(Tok& t, Repetition& r) {
    memset(&r, 0, sizeof r);
    std::string w = t.s();
    if (w == "N") { r.type = RepetitionType::None; }
    else if (w == "T") { r.type = RepetitionType::Rectangular; r.columns = (uint64_t)t.n(); r.rows = (uint64_t)t.n(); r.spacing = t.v(); }
    else if (w == "G") { r.type = RepetitionType::Regular; r.columns = (uint64_t)t.n(); r.rows = (uint64_t)t.n(); r.v1 = t.v(); r.v2 = t.v(); }
    else if (w == "E") { r.type = RepetitionType::Explicit; long n = t.n(); for (long i = 0; i < n; i++) r.offsets.append(t.v()); }
    else if (w == "EX") { r.type = RepetitionType::ExplicitX; long n = t.n(); for (long i = 0; i < n; i++) r.coords.append(t.d()); }
    else if (w == "EY") { r.type = RepetitionType::ExplicitY; long n = t.n(); for (long i = 0; i < n; i++) r.coords.append(t.d()); }
}

// ------------------------------------------------------------------ items
struct Item {
    std::string head;       // kind, tag, flags
    std::vector<double> v;  // numbers, with NAN as a separator between groups
    std::string str() const {
        std::string s = head + " :";
        for (double x : v) s += std::isnan(x) ? std::string(" |") : " " + g(x);
        return s;
    }
};
static void push(Item& it, Vec2 p) {
    it.v.push_back(p.x);
    it.v.push_back(p.y);
}
static void sep(Item& it) { it.v.push_back(NAN); }

// attached repetition: offsets after the leading (0,0)
static void push_rep(Item& it, const Repetition& r) {
    sep(it);
    if (r.type == RepetitionType::None) {
        it.head += " @N";
        return;
    }
    Array<Vec2> offs = {};
    r.get_offsets(offs);
    it.head += " @" + std::to_string(offs.count - 1);
    for (uint64_t i = 1; i < offs.count; i++) push(it, offs[i]);
    offs.clear();
}

static Item item_poly(const Polygon* p, bool with_rep) {
    Item it;
    it.head = "P " + hex_u64(p->tag);
    for (uint64_t i = 0; i < p->point_array.count; i++) push(it, p->point_array[i]);
    if (with_rep) push_rep(it, p->repetition);
    return it;
}
static void items_flex(const FlexPath* f, bool with_rep, std::vector<Item>& out) {
    for (uint64_t k = 0; k < f->num_elements; k++) {
        const FlexPathElement* el = f->elements + k;
        Item it;
        it.head = "F " + hex_u64(el->tag) + " " + (f->scale_width ? "1" : "0");
        for (uint64_t i = 0; i < f->spine.point_array.count; i++) push(it, f->spine.point_array[i]);
        sep(it);
        push(it, el->end_extensions);
        sep(it);
        for (uint64_t i = 0; i < el->half_width_and_offset.count; i++) push(it, el->half_width_and_offset[i]);
        if (with_rep) push_rep(it, f->repetition);
        out.push_back(it);
    }
}
static void items_robust(const RobustPath* r, bool with_rep, std::vector<Item>& out) {
    for (uint64_t k = 0; k < r->num_elements; k++) {
        const RobustPathElement* el = r->elements + k;
        Item it;
        it.head = "R " + hex_u64(el->tag) + " " + (r->scale_width ? "1" : "0");
        for (int i = 0; i < 6; i++) it.v.push_back(r->trafo[i]);
        sep(it);
        it.v.push_back(r->width_scale);
        it.v.push_back(r->offset_scale);
        sep(it);
        push(it, el->end_extensions);
        if (with_rep) push_rep(it, r->repetition);
        out.push_back(it);
    }
}
static Item item_label(const Label* l, bool with_rep) {
    Item it;
    it.head = "L " + hex_u64(l->tag) + " " + (l->x_reflection ? "1" : "0");
    push(it, l->origin);
    it.v.push_back(cos(l->rotation));
    it.v.push_back(sin(l->rotation));
    it.v.push_back(l->magnification);
    if (with_rep) push_rep(it, l->repetition);
    return it;
}

static std::string join_items(std::vector<Item>& items) {
    std::vector<std::string> ss;
    for (auto& it : items) ss.push_back(it.str());
    std::sort(ss.begin(), ss.end());
    std::string s = std::to_string(ss.size());
    for (auto& x : ss) s += " ; " + x;
    return s;
}

static bool item_close(const Item& a, const Item& b) {
    if (a.head != b.head || a.v.size() != b.v.size()) return false;
    for (size_t i = 0; i < a.v.size(); i++) {
        if (std::isnan(a.v[i]) != std::isnan(b.v[i])) return false;
        if (std::isnan(a.v[i])) continue;
        double tol = 1e-9 * std::max(1.0, std::max(fabs(a.v[i]), fabs(b.v[i])));
        if (fabs(a.v[i] - b.v[i]) > tol) return false;
    }
    return true;
}
// multiset equality with tolerance; returns "" or a description of an unmatched item
static std::string multiset_diff(const std::vector<Item>& a, const std::vector<Item>& b) {
    if (a.size() != b.size()) return "count " + std::to_string(a.size()) + " != " + std::to_string(b.size());
    std::vector<bool> used(b.size(), false);
    for (auto& x : a) {
        bool found = false;
        for (size_t j = 0; j < b.size() && !found; j++) {
            if (!used[j] && item_close(x, b[j])) {
                used[j] = true;
                found = true;
            }
        }
        if (!found) return "no counterpart for " + x.str().substr(0, 200);
    }
    return "";
}

// ------------------------------------------------------------------ hierarchy
struct Hier {
    std::vector<Cell*> cells;
    Cell* missing = NULL;
    void clear() {
        for (Cell* c : cells) {
            for (uint64_t i = 0; i < c->polygon_array.count; i++) { c->polygon_array[i]->clear(); free_allocation(c->polygon_array[i]); }
            for (uint64_t i = 0; i < c->flexpath_array.count; i++) { c->flexpath_array[i]->clear(); free_allocation(c->flexpath_array[i]); }
            for (uint64_t i = 0; i < c->robustpath_array.count; i++) { c->robustpath_array[i]->clear(); free_allocation(c->robustpath_array[i]); }
            for (uint64_t i = 0; i < c->label_array.count; i++) { c->label_array[i]->clear(); free_allocation(c->label_array[i]); }
            for (uint64_t i = 0; i < c->reference_array.count; i++) { c->reference_array[i]->clear(); free_allocation(c->reference_array[i]); }
            c->clear();
            free_allocation(c);
        }
        cells.clear();
    }
};

static EndType end_of(long et) { return et == 0 ? EndType::Flush : et == 2 ? EndType::HalfWidth : EndType::Extended; }

static void skip_outline(Tok& t) {
    t.s();  // "O"
    long n = t.n();
    for (long i = 0; i < n; i++) t.v();
}

static bool read_hier(Tok& t, Hier& h) {
    if (t.s() != "H") return false;
    long nc = t.n();
    for (long i = 0; i < nc; i++) {
        Cell* c = (Cell*)allocate_clear(sizeof(Cell));
        char nm[32];
        snprintf(nm, sizeof nm, "c%ld", i);
        c->name = copy_string(nm, NULL);
        h.cells.push_back(c);
    }
    for (long ci = 0; ci < nc; ci++) {
        Cell* c = h.cells[ci];
        if (t.s() != "C") return false;
        long nel = t.n();
        for (long e = 0; e < nel; e++) {
            std::string w = t.s();
            if (w == "P") {
                Polygon* p = (Polygon*)allocate_clear(sizeof(Polygon));
                p->tag = t.h();
                read_rep(t, p->repetition);
                long n = t.n();
                for (long i = 0; i < n; i++) p->point_array.append(t.v());
                c->polygon_array.append(p);
            } else if (w == "F") {
                FlexPath* f = (FlexPath*)allocate_clear(sizeof(FlexPath));
                read_rep(t, f->repetition);
                f->scale_width = t.n() != 0;
                f->spine.tolerance = 0.01;
                long nsp = t.n();
                for (long i = 0; i < nsp; i++) f->spine.point_array.append(t.v());
                long ne = t.n();
                f->num_elements = (uint64_t)ne;
                f->elements = (FlexPathElement*)allocate_clear(sizeof(FlexPathElement) * (size_t)ne);
                for (long k = 0; k < ne; k++) {
                    FlexPathElement* el = f->elements + k;
                    el->tag = t.h();
                    el->end_type = end_of(t.n());
                    el->end_extensions = t.v();
                    for (long i = 0; i < nsp; i++) el->half_width_and_offset.append(t.v());
                    skip_outline(t);
                }
                c->flexpath_array.append(f);
            } else if (w == "R") {
                RobustPath* r = (RobustPath*)allocate_clear(sizeof(RobustPath));
                Repetition rep;
                read_rep(t, rep);
                bool sw = t.n() != 0;
                double tr[6];
                for (int i = 0; i < 6; i++) tr[i] = t.d();
                double ws = t.d(), os = t.d();
                Vec2 p0 = t.v();
                long nseg = t.n();
                std::vector<Vec2> pts;
                for (long i = 0; i < nseg; i++) pts.push_back(t.v());
                long ne = t.n();
                std::vector<std::vector<Vec2>> wo((size_t)ne);
                std::vector<long> et((size_t)ne);
                std::vector<Vec2> ext((size_t)ne);
                std::vector<double> w0((size_t)ne), o0((size_t)ne);
                std::vector<Tag> tags((size_t)ne);
                for (long k = 0; k < ne; k++) {
                    tags[k] = t.h();
                    et[k] = t.n();
                    ext[k] = t.v();
                    for (long i = 0; i <= nseg; i++) wo[k].push_back(t.v());
                    w0[k] = wo[k][0].u;
                    o0[k] = wo[k][0].v;
                    skip_outline(t);
                }
                r->init(p0, (uint64_t)ne, w0.data(), o0.data(), 0.01, 1000, tags.data());
                r->scale_width = sw;
                for (long k = 0; k < ne; k++) {
                    r->elements[k].end_type = end_of(et[k]);
                    r->elements[k].end_extensions = ext[k];
                }
                for (long i = 0; i < nseg; i++) {
                    std::vector<Interpolation> wi((size_t)ne), oi((size_t)ne);
                    for (long k = 0; k < ne; k++) {
                        wi[k].type = InterpolationType::Linear;
                        wi[k].initial_value = wo[k][i].u;
                        wi[k].final_value = wo[k][i + 1].u;
                        oi[k].type = InterpolationType::Linear;
                        oi[k].initial_value = wo[k][i].v;
                        oi[k].final_value = wo[k][i + 1].v;
                    }
                    r->segment(pts[i], wi.data(), oi.data(), false);
                }
                for (int i = 0; i < 6; i++) r->trafo[i] = tr[i];
                r->width_scale = ws;
                r->offset_scale = os;
                r->repetition = rep;
                c->robustpath_array.append(r);
            } else if (w == "L") {
                Label* l = (Label*)allocate_clear(sizeof(Label));
                l->tag = t.h();
                read_rep(t, l->repetition);
                l->text = copy_string("txt", NULL);
                l->origin = t.v();
                l->rotation = read_ang(t).val();
                l->magnification = t.d();
                l->x_reflection = t.n() != 0;
                c->label_array.append(l);
            } else {
                return false;
            }
        }
        long nref = t.n();
        for (long e = 0; e < nref; e++) {
            Reference* r = (Reference*)allocate_clear(sizeof(Reference));
            long target = t.n();
            if (target >= 0 && target < nc) {
                r->type = ReferenceType::Cell;
                r->cell = h.cells[target];
            } else {
                r->type = ReferenceType::Name;
                r->name = copy_string("missing", NULL);
            }
            read_rep(t, r->repetition);
            r->origin = t.v();
            r->rotation = read_ang(t).val();
            r->magnification = t.d();
            r->x_reflection = t.n() != 0;
            c->reference_array.append(r);
        }
    }
    return true;
}

// ------------------------------------------------------------------ queries
struct Query {
    long cell = 0;
    std::string what;
    bool ar = true;
    int64_t depth = -1;
    bool filter = false;
    Tag tag = 0;
    int flat = 0;
};
static Query read_query(Tok& t) {
    Query q;
    t.s();  // "Q"
    q.cell = t.n();
    q.what = t.s();
    q.ar = t.n() != 0;
    q.depth = t.n();
    std::string f = t.s();
    if (f != "-") {
        q.filter = true;
        q.tag = strtoull(f.c_str(), NULL, 16);
    }
    q.flat = (int)t.n();
    return q;
}

// runs one query; raw = items with repetitions attached, expanded = shapes after the library's apply_repetition
static void run_query(Cell* c, const Query& q, bool ar, int64_t depth, std::vector<Item>* raw, std::vector<Item>* expanded) {
    if (q.what == "P" || q.what == "PP") {
        Array<Polygon*> res = {};
        c->get_polygons(ar, q.what == "PP", depth, q.filter, q.tag, res);
        if (raw) for (uint64_t i = 0; i < res.count; i++) raw->push_back(item_poly(res[i], true));
        if (expanded) {
            uint64_t n0 = res.count;
            for (uint64_t i = 0; i < n0; i++) res[i]->apply_repetition(res);
            for (uint64_t i = 0; i < res.count; i++) expanded->push_back(item_poly(res[i], false));
        }
        for (uint64_t i = 0; i < res.count; i++) { res[i]->clear(); free_allocation(res[i]); }
        res.clear();
    } else if (q.what == "F") {
        Array<FlexPath*> res = {};
        c->get_flexpaths(ar, depth, q.filter, q.tag, res);
        if (raw) for (uint64_t i = 0; i < res.count; i++) items_flex(res[i], true, *raw);
        if (expanded) {
            uint64_t n0 = res.count;
            for (uint64_t i = 0; i < n0; i++) res[i]->apply_repetition(res);
            for (uint64_t i = 0; i < res.count; i++) items_flex(res[i], false, *expanded);
        }
        for (uint64_t i = 0; i < res.count; i++) { res[i]->clear(); free_allocation(res[i]); }
        res.clear();
    } else if (q.what == "R") {
        Array<RobustPath*> res = {};
        c->get_robustpaths(ar, depth, q.filter, q.tag, res);
        if (raw) for (uint64_t i = 0; i < res.count; i++) items_robust(res[i], true, *raw);
        if (expanded) {
            uint64_t n0 = res.count;
            for (uint64_t i = 0; i < n0; i++) res[i]->apply_repetition(res);
            for (uint64_t i = 0; i < res.count; i++) items_robust(res[i], false, *expanded);
        }
        for (uint64_t i = 0; i < res.count; i++) { res[i]->clear(); free_allocation(res[i]); }
        res.clear();
    } else if (q.what == "L") {
        Array<Label*> res = {};
        c->get_labels(ar, depth, q.filter, q.tag, res);
        if (raw) for (uint64_t i = 0; i < res.count; i++) raw->push_back(item_label(res[i], true));
        if (expanded) {
            uint64_t n0 = res.count;
            for (uint64_t i = 0; i < n0; i++) res[i]->apply_repetition(res);
            for (uint64_t i = 0; i < res.count; i++) expanded->push_back(item_label(res[i], false));
        }
        for (uint64_t i = 0; i < res.count; i++) { res[i]->clear(); free_allocation(res[i]); }
        res.clear();
    }
}

static void do_flatten(Cell* c, bool ar) {
    Array<Reference*> removed = {};
    c->flatten(ar, removed);
    for (uint64_t i = 0; i < removed.count; i++) { removed[i]->clear(); free_allocation(removed[i]); }
    removed.clear();
}

static void run_get(Out& out, const std::string& id, const std::string& kind, const std::string& payload) {
    Tok t(payload);
    t.s();
    t.n();  // FL flags
    Hier h;
    if (!read_hier(t, h)) { out.I(id, "bad-case"); h.clear(); return; }
    Query q = read_query(t);
    if (q.cell < 0 || q.cell >= (long)h.cells.size()) { out.I(id, "bad-case"); h.clear(); return; }
    Cell* c = h.cells[q.cell];
    // reference result: the cell as built, repetitions applied
    std::vector<Item> reference_shapes;
    if (kind == "shapes" && (!q.ar || q.flat != 0)) run_query(c, q, true, q.flat != 0 ? -1 : q.depth, &reference_shapes, NULL);
    if (q.flat == 1) do_flatten(c, true);
    if (q.flat == 2) do_flatten(c, false);
    std::vector<Item> raw, expanded;
    if (kind == "get") {
        run_query(c, q, q.ar, q.depth, &raw, NULL);
        out.I(id, join_items(raw));
    } else {
        run_query(c, q, q.ar, q.depth, NULL, &expanded);
        out.I(id, join_items(expanded));
        if (!q.ar || q.flat != 0) {
            // reference items carry "@N" (repetition cleared): compare shapes only
            for (auto& it : reference_shapes) {
                size_t p = it.head.find(" @");
                if (p != std::string::npos) it.head = it.head.substr(0, p);
                while (!it.v.empty() && std::isnan(it.v.back())) it.v.pop_back();
            }
            std::string d = multiset_diff(reference_shapes, expanded);
            if (d.empty()) {
                out.P(id, "ok");
            } else if (q.flat == 1 && q.ar) {
                out.P(id, "FAIL flatten:changes-geometry shapes after flatten(apply_repetitions=true) differ from the shapes before: " + d);
                out.count("P:flatten:changes-geometry");
            } else {
                out.P(id, "FAIL get_*:unapplied-rep+transformed-ref repetitions left attached under a transformed reference describe other shapes than the applied ones: " + d);
                out.count("P:get_*:unapplied-rep+transformed-ref");
            }
        }
    }
    out.count("what:" + q.what);
    out.count(std::string("apply_repetitions:") + (q.ar ? "1" : "0"));
    out.count("depth:" + std::to_string(q.depth));
    out.count(std::string("filter:") + (q.filter ? "1" : "0"));
    out.count("flat:" + std::to_string(q.flat));
    h.clear();
}

// own elements of a cell, every kind, repetitions attached
static std::vector<Item> dump_own(Cell* c) {
    std::vector<Item> items;
    for (uint64_t i = 0; i < c->polygon_array.count; i++) items.push_back(item_poly(c->polygon_array[i], true));
    for (uint64_t i = 0; i < c->flexpath_array.count; i++) items_flex(c->flexpath_array[i], true, items);
    for (uint64_t i = 0; i < c->robustpath_array.count; i++) items_robust(c->robustpath_array[i], true, items);
    for (uint64_t i = 0; i < c->label_array.count; i++) items.push_back(item_label(c->label_array[i], true));
    for (uint64_t i = 0; i < c->reference_array.count; i++) {
        Reference* r = c->reference_array[i];
        Item it;
        it.head = std::string("X ") + (r->type == ReferenceType::Cell ? r->cell->name : "-") + " " + (r->x_reflection ? "1" : "0");
        push(it, r->origin);
        it.v.push_back(cos(r->rotation));
        it.v.push_back(sin(r->rotation));
        it.v.push_back(r->magnification);
        push_rep(it, r->repetition);
        items.push_back(it);
    }
    return items;
}

// what the items do not show: sub-path geometry and interpolation values of RobustPaths
static std::vector<double> hidden_state(Cell* c) {
    std::vector<double> v;
    for (uint64_t i = 0; i < c->robustpath_array.count; i++) {
        RobustPath* r = c->robustpath_array[i];
        for (uint64_t j = 0; j < r->subpath_array.count; j++) {
            v.push_back(r->subpath_array[j].begin.x); v.push_back(r->subpath_array[j].begin.y);
            v.push_back(r->subpath_array[j].end.x); v.push_back(r->subpath_array[j].end.y);
        }
        for (uint64_t k = 0; k < r->num_elements; k++) {
            for (uint64_t j = 0; j < r->elements[k].width_array.count; j++) { v.push_back(r->elements[k].width_array[j].initial_value); v.push_back(r->elements[k].width_array[j].final_value); }
            for (uint64_t j = 0; j < r->elements[k].offset_array.count; j++) { v.push_back(r->elements[k].offset_array[j].initial_value); v.push_back(r->elements[k].offset_array[j].final_value); }
        }
    }
    return v;
}

static void scramble_rep(Repetition& r) {
    r.clear();
    r.type = RepetitionType::Explicit;
    r.offsets.append(Vec2{777, -777});
}

static void copy_body(FILE* o, const std::string& payload) {
    Tok t(payload);
    t.s();
    t.n();
    Hier h;
    if (!read_hier(t, h)) { fprintf(o, "bad-case\n"); h.clear(); return; }
    Query q = read_query(t);
    Cell* c = h.cells[q.cell];
    std::vector<Item> before = dump_own(c);
    std::vector<double> hidden_before = hidden_state(c);
    Cell* cp = (Cell*)allocate_clear(sizeof(Cell));
    cp->copy_from(*c, "copy", true);
    // overwrite every field of the copy
    for (uint64_t i = 0; i < cp->polygon_array.count; i++) {
        Polygon* p = cp->polygon_array[i];
        for (uint64_t j = 0; j < p->point_array.count; j++) p->point_array[j] = Vec2{-999, 999};
        p->point_array.append(Vec2{1, 2});
        p->tag = make_tag(77, 77);
        scramble_rep(p->repetition);
    }
    for (uint64_t i = 0; i < cp->flexpath_array.count; i++) {
        FlexPath* f = cp->flexpath_array[i];
        for (uint64_t j = 0; j < f->spine.point_array.count; j++) f->spine.point_array[j] = Vec2{-999, 999};
        f->scale_width = !f->scale_width;
        for (uint64_t k = 0; k < f->num_elements; k++) {
            f->elements[k].tag = make_tag(77, 77);
            f->elements[k].end_extensions = Vec2{55, 55};
            for (uint64_t j = 0; j < f->elements[k].half_width_and_offset.count; j++) f->elements[k].half_width_and_offset[j] = Vec2{9, 9};
        }
        scramble_rep(f->repetition);
    }
    for (uint64_t i = 0; i < cp->robustpath_array.count; i++) {
        RobustPath* r = cp->robustpath_array[i];
        for (int j = 0; j < 6; j++) r->trafo[j] = 42;
        r->width_scale = 42;
        r->offset_scale = 42;
        r->scale_width = !r->scale_width;
        for (uint64_t j = 0; j < r->subpath_array.count; j++) r->subpath_array[j].begin = Vec2{-999, 999};
        for (uint64_t k = 0; k < r->num_elements; k++) {
            r->elements[k].tag = make_tag(77, 77);
            r->elements[k].end_extensions = Vec2{55, 55};
            for (uint64_t j = 0; j < r->elements[k].width_array.count; j++) r->elements[k].width_array[j].initial_value = 42;
            for (uint64_t j = 0; j < r->elements[k].offset_array.count; j++) r->elements[k].offset_array[j].initial_value = 42;
        }
        scramble_rep(r->repetition);
    }
    for (uint64_t i = 0; i < cp->label_array.count; i++) {
        Label* l = cp->label_array[i];
        l->origin = Vec2{-999, 999};
        l->rotation = 1;
        l->magnification = 42;
        l->x_reflection = !l->x_reflection;
        l->tag = make_tag(77, 77);
        l->text[0] = 'Z';
        scramble_rep(l->repetition);
    }
    for (uint64_t i = 0; i < cp->reference_array.count; i++) {
        Reference* r = cp->reference_array[i];
        r->origin = Vec2{-999, 999};
        r->rotation = 1;
        r->magnification = 42;
        r->x_reflection = !r->x_reflection;
        if (r->type == ReferenceType::Name) r->name[0] = 'Z';
        scramble_rep(r->repetition);
    }
    cp->name[0] = 'Z';
    std::vector<Item> after = dump_own(c);
    bool text_ok = true;
    for (uint64_t i = 0; i < c->label_array.count; i++) text_ok = text_ok && strcmp(c->label_array[i]->text, "txt") == 0;
    for (uint64_t i = 0; i < c->reference_array.count; i++)
        if (c->reference_array[i]->type == ReferenceType::Name) text_ok = text_ok && strcmp(c->reference_array[i]->name, "missing") == 0;
    text_ok = text_ok && c->name[0] == 'c' && hidden_before == hidden_state(c);
    fprintf(o, "%s\n", join_items(after).c_str());
    std::string d = multiset_diff(before, after);
    if (d.empty() && text_ok) fprintf(o, "ok\n");
    else fprintf(o, "FAIL copy_from:shared-state overwriting a deep copy changed the source: %s\n", (d.empty() ? std::string("a string or sub-path data") : d).c_str());
    fflush(o);
    // release the copy
    Hier hc;
    hc.cells.push_back(cp);
    hc.clear();
    h.clear();
    // the source must still be usable after the copy is gone
    fprintf(o, "released\n");
}

// in a child process: a copy that shares memory with its source makes the release of the copy or of the source crash
static void run_copy(Out& out, const std::string& id, const std::string& payload) {
    std::string res = in_child([&](FILE* o) { copy_body(o, payload); }, 60);
    std::vector<std::string> lines;
    std::istringstream is(res);
    std::string ln;
    while (std::getline(is, ln)) lines.push_back(ln);
    bool released = !lines.empty() && lines.back() == "released";
    if (lines.size() >= 1 && lines[0] != "released") out.I(id, lines[0]); else out.I(id, "no-result " + res.substr(0, 60));
    if (lines.size() >= 2 && lines[1].compare(0, 4, "FAIL") == 0) out.P(id, lines[1]);
    else if (!released) out.P(id, "FAIL copy_from:shared-state releasing the copy and then the source does not complete: " + res.substr(res.size() > 40 ? res.size() - 40 : 0));
    else out.P(id, "ok");
}


static void run_case(Out& out, const std::string& kind, const std::string& payload) {
    std::string id = out.add(kind, payload);
    if (kind == "get" || kind == "shapes") run_get(out, id, kind, payload);
    else if (kind == "copy") run_copy(out, id, payload);
    else out.I(id, "unknown-kind");
}

// ------------------------------------------------------------------ generators
static const Ang ANGLES[] = {{1, 0, 1},  {0, 1, 1},   {-1, 0, 1},   {0, -1, 1},   {3, 4, 5},   {4, 3, 5},     {-3, 4, 5}, {-4, -3, 5},
                             {3, -4, 5}, {5, 12, 13}, {12, -5, 13}, {-5, 12, 13}, {8, 15, 17}, {-15, -8, 17}, {4, -3, 5}, {-12, -5, 13}};
static const double MAGS[] = {2, 0.5, -1, -1.5, 3, 1};
static std::string D(double x) { return hex_dbl(x); }
static std::string DV(double x, double y) { return D(x) + " " + D(y); }
static double coord(Rng& g_) { return g_.chance(70) ? (double)g_.range(-8, 8) : (double)g_.range(-32, 32) / 4.0; }
static Ang angle(Rng& g_) { return g_.chance(25) ? ANGLES[0] : ANGLES[g_.below(sizeof ANGLES / sizeof ANGLES[0])]; }
static Tag gen_tag(Rng& g_) { return make_tag((uint32_t)g_.range(1, 3), (uint32_t)g_.below(2)); }  // same layer, two types: a filter must compare both halves

static std::string gen_rep(Rng& g_, int pct) {
    if (!g_.chance(pct)) return "N";
    switch (g_.below(5)) {
        case 0: {
            long c = g_.range(1, 2), r = g_.range(1, 2);
            return "T " + std::to_string(c) + " " + std::to_string(r) + " " + DV(coord(g_) + 40, coord(g_) - 40);
        }
        case 1: {
            long c = g_.range(1, 2), r = g_.range(1, 2);
            return "G " + std::to_string(c) + " " + std::to_string(r) + " " + DV(coord(g_) + 40, coord(g_)) + " " + DV(coord(g_), coord(g_) + 40);
        }
        case 2: {
            int n = (int)g_.range(0, 2);
            std::string s = "E " + std::to_string(n);
            for (int i = 0; i < n; i++) s += " " + DV(coord(g_) * 8, coord(g_) * 8);
            return s;
        }
        case 3: {
            int n = (int)g_.range(0, 2);
            std::string s = "EX " + std::to_string(n);
            for (int i = 0; i < n; i++) s += " " + D(coord(g_) * 8);
            return s;
        }
        default: {
            int n = (int)g_.range(0, 2);
            std::string s = "EY " + std::to_string(n);
            for (int i = 0; i < n; i++) s += " " + D(coord(g_) * 8);
            return s;
        }
    }
}

static std::string outline_str(Polygon* p) {
    std::string s = "O " + std::to_string(p->point_array.count);
    for (uint64_t i = 0; i < p->point_array.count; i++) s += " " + DV(p->point_array[i].x, p->point_array[i].y);
    return s;
}

// builds the element through the parser so that the outlines are those of exactly the object a case will build
static std::string with_outlines(const std::string& elem_without, int ne) {
    // elem_without has the token "O?" where an outline belongs; build the path with empty outlines first
    std::string probe = elem_without;
    size_t p;
    while ((p = probe.find("O?")) != std::string::npos) probe.replace(p, 2, "O 0");
    std::string hier = "H 1 C 1 " + probe + " 0";
    Tok t(hier);
    Hier h;
    std::string res = elem_without;
    if (read_hier(t, h)) {
        Array<Polygon*> polys = {};
        Cell* c = h.cells[0];
        if (c->flexpath_array.count) c->flexpath_array[0]->to_polygons(false, 0, polys);
        if (c->robustpath_array.count) c->robustpath_array[0]->to_polygons(false, 0, polys);
        for (int k = 0; k < ne; k++) {
            p = res.find("O?");
            std::string o = (polys.count == (uint64_t)ne) ? outline_str(polys[k]) : std::string("O 0");
            res.replace(p, 2, o);
        }
        for (uint64_t i = 0; i < polys.count; i++) { polys[i]->clear(); free_allocation(polys[i]); }
        polys.clear();
    }
    h.clear();
    return res;
}

static std::string gen_elem(Rng& g_, int& flags) {
    int w = (int)g_.below(10);
    if (w < 4) {
        int n = (int)g_.range(3, 6);
        std::string s = "P " + hex_u64(gen_tag(g_)) + " " + gen_rep(g_, 40) + " " + std::to_string(n);
        for (int i = 0; i < n; i++) s += " " + DV(coord(g_), coord(g_));
        return s;
    } else if (w < 6) {
        int nsp = (int)g_.range(2, 4);
        std::string s = "F " + gen_rep(g_, 40) + " " + (g_.chance(80) ? "1" : "0") + " " + std::to_string(nsp);
        double x = coord(g_), y = coord(g_);
        Ang a0 = ANGLES[g_.below(16)];
        double dirx = a0.c(), diry = a0.s(), prev_side = 99;
        for (int i = 0; i < nsp; i++) {
            s += " " + DV(x, y);
            double len = (double)g_.range(6, 12), side = (double)g_.range(-2, 2) / 4.0;
            while (side == prev_side) side = (double)g_.range(-2, 2) / 4.0;
            prev_side = side;
            x += len * (dirx - side * diry);
            y += len * (diry + side * dirx);
            x = floor(x * 4 + 0.5) / 4;
            y = floor(y * 4 + 0.5) / 4;
        }
        int ne = (int)g_.range(1, 2);
        s += " " + std::to_string(ne);
        bool offs = g_.chance(50);
        if (offs) flags |= 4;
        for (int k = 0; k < ne; k++) {
            int et = (int)g_.below(3);
            s += " " + hex_u64(gen_tag(g_)) + " " + std::to_string(et == 1 ? 3 : et) + " " + DV((double)g_.range(1, 6) / 4.0, (double)g_.range(1, 6) / 4.0);
            double hw = (double)g_.range(1, 4) / 4.0, off = offs ? (double)(k * 2 + 1) + (double)g_.range(-1, 1) / 4.0 : 0;
            for (int i = 0; i < nsp; i++) s += " " + DV(hw + 0.125 * i, off);
            s += " O?";
        }
        return with_outlines(s, ne);
    } else if (w < 8) {
        int nseg = (int)g_.range(1, 2);
        std::string s = "R " + gen_rep(g_, 40) + " " + (g_.chance(80) ? "1" : "0");
        // an already transformed path now and then
        if (g_.chance(30)) s += " " + D(0) + " " + D(-2) + " " + D(3) + " " + D(2) + " " + D(0) + " " + D(-1) + " " + D(2) + " " + D(2);
        else s += " " + D(1) + " " + D(0) + " " + D(0) + " " + D(0) + " " + D(1) + " " + D(0) + " " + D(1) + " " + D(1);
        double x = coord(g_), y = coord(g_);
        s += " " + DV(x, y) + " " + std::to_string(nseg);
        for (int i = 0; i < nseg; i++) {
            x += (double)g_.range(6, 12);
            y += (double)g_.range(-3, 3);
            s += " " + DV(x, y);
        }
        int ne = (int)g_.range(1, 2);
        s += " " + std::to_string(ne);
        for (int k = 0; k < ne; k++) {
            int et = (int)g_.below(3);
            s += " " + hex_u64(gen_tag(g_)) + " " + std::to_string(et == 1 ? 3 : et) + " " + DV((double)g_.range(1, 6) / 4.0, (double)g_.range(1, 6) / 4.0);
            double wd = (double)g_.range(2, 8) / 4.0, off = (double)(k * 3) + (double)g_.range(-2, 2) / 4.0;
            for (int i = 0; i <= nseg; i++) s += " " + DV(wd + 0.25 * i, off);
            s += " O?";
        }
        return with_outlines(s, ne);
    } else {
        return "L " + hex_u64(gen_tag(g_)) + " " + gen_rep(g_, 40) + " " + DV(coord(g_), coord(g_)) + " " + angle(g_).str() + " " +
               D(MAGS[g_.below(6)]) + " " + (g_.coin() ? "1" : "0");
    }
}

static std::string gen_ref(Rng& g_, long target, int& flags, bool f8_friendly) {
    double mag = g_.chance(40) ? 1 : MAGS[g_.below(6)];
    bool xr = g_.chance(35);
    Ang a = angle(g_);
    if (f8_friendly) { mag = 1; xr = false; a = ANGLES[0]; }
    if (xr) flags |= 1;
    if (mag < 0) flags |= 2;
    return std::to_string(target) + " " + gen_rep(g_, 40) + " " + DV(coord(g_) * 4, coord(g_) * 4) + " " + a.str() + " " + D(mag) + " " + (xr ? "1" : "0");
}

static std::string gen_hier(Rng& g_, int& flags) {
    int nc = (int)g_.range(2, 5);
    bool plain = g_.chance(15);  // translation-only references: leaving repetitions attached is harmless there
    std::string s = "H " + std::to_string(nc);
    for (int ci = 0; ci < nc; ci++) {
        int nel = (int)g_.range(ci == nc - 1 ? 1 : 0, 3);
        s += " C " + std::to_string(nel);
        for (int e = 0; e < nel; e++) s += " " + gen_elem(g_, flags);
        std::vector<std::string> refs;
        if (ci < nc - 1) {
            // the next cell is always referenced (levels), others at random (shared children)
            refs.push_back(gen_ref(g_, ci + 1, flags, plain));
            if (g_.chance(50)) refs.push_back(gen_ref(g_, g_.range(ci + 1, nc - 1), flags, plain));
            if (ci + 2 < nc && g_.chance(25)) refs.push_back(gen_ref(g_, g_.range(ci + 2, nc - 1), flags, plain));
        }
        if (g_.chance(20)) refs.insert(refs.begin() + (long)g_.below(refs.size() + 1), gen_ref(g_, -1, flags, plain));
        s += " " + std::to_string(refs.size());
        for (auto& r : refs) s += " " + r;
    }
    return s;
}

int main(int argc, char** argv) {
    if (argc < 4) {
        fprintf(stderr, "usage: %s seed tier outdir [corpusdir] [replayfile]\n", argv[0]);
        return 2;
    }
    uint64_t seed = strtoull(argv[1], NULL, 10);
    bool thorough = std::string(argv[2]) == "thorough";
    Out out;
    out.open(argv[3]);
    set_error_logger(fopen("/dev/null", "w"));
    if (argc > 5) {
        std::string kind, payload;
        if (load_replay(argv[5], kind, payload)) run_case(out, kind, payload);
        out.close();
        return 0;
    }
    for (auto& kp : load_corpus(argc > 4 ? argv[4] : NULL)) run_case(out, kp.first, kp.second);
    Rng g_(seed);

    // the probe behind F8: unit square repeated at (5,0) under a reference rotated by 90 degrees
    {
        std::string sq = "P " + hex_u64(make_tag(1, 0)) + " T 2 1 " + DV(5, 0) + " 4 " + DV(0, 0) + " " + DV(1, 0) + " " + DV(1, 1) + " " + DV(0, 1);
        std::string hier = "FL 0 H 2 C 0 1 1 N " + DV(0, 0) + " 0 1 1 " + D(1) + " 0 C 1 " + sq + " 0";
        run_case(out, "get", hier + " Q 0 P 0 -1 - 0");
        run_case(out, "shapes", hier + " Q 0 P 0 -1 - 0");
        run_case(out, "shapes", hier + " Q 0 P 1 -1 - 2");
    }

    long nh = thorough ? 600 : 40;
    const char* whats[] = {"P", "PP", "F", "R", "L"};
    const long depths[] = {-1, 0, 1, 2, 3};
    for (long hi = 0; hi < nh; hi++) {
        int flags = 0;
        std::string hier = gen_hier(g_, flags);
        std::string pre = "FL " + std::to_string(flags) + " " + hier;
        // size guard: skip hierarchies whose full expansion is large
        {
            Tok t(hier);
            Hier h;
            bool ok = read_hier(t, h);
            size_t total = 0;
            if (ok) {
                Query q;
                for (const char* w : {"PP", "F", "R", "L"}) {
                    q.what = w;
                    std::vector<Item> items;
                    run_query(h.cells[0], q, true, -1, &items, NULL);
                    total += items.size();
                }
            }
            h.clear();
            if (!ok || total > 400) { out.count("hierarchy-skipped(too large)"); continue; }
            out.count("hierarchies");
        }
        for (int wi = 0; wi < 5; wi++) {
            for (int ar = 0; ar < 2; ar++) {
                for (int di = 0; di < 5; di++) {
                    if (!g_.chance(thorough ? 45 : 35)) continue;
                    std::string filter = g_.chance(35) ? hex_u64(make_tag((uint32_t)g_.range(1, 3), (uint32_t)g_.below(2))) : "-";
                    long cell = g_.chance(85) ? 0 : 1;
                    std::string q = " Q " + std::to_string(cell) + " " + whats[wi] + " " + std::to_string(ar) + " " + std::to_string(depths[di]) + " " + filter + " 0";
                    run_case(out, "get", pre + q);
                    run_case(out, "shapes", pre + q);
                }
            }
            if (wi == 1) continue;  // outlines of already transformed paths are C07/C08/C10 matter: no PP after flatten
            for (int flat = 1; flat <= 2; flat++) {
                for (int ar = 0; ar < 2; ar++) {
                    if (!g_.chance(50)) continue;
                    std::string filter = g_.chance(25) ? hex_u64(make_tag((uint32_t)g_.range(1, 3), (uint32_t)g_.below(2))) : "-";
                    std::string q = std::string(" Q 0 ") + whats[wi] + " " + std::to_string(ar) + " " + std::to_string(depths[g_.below(3)]) + " " + filter + " " + std::to_string(flat);
                    run_case(out, "get", pre + q);
                    run_case(out, "shapes", pre + q);
                }
            }
        }
        run_case(out, "copy", pre + " Q " + std::to_string(g_.below(2)) + " P 1 0 - 0");
    }
    out.close();
    return 0;
}
