// OAS_CBLOCK harness: compressed blocks (CBLOCK records, zlib) around the statement-level OASIS models.
//   coq/OasisCblock.v: read_oas_model_c (reader: CBLOCK executed, block-end behaviour of oasis_read) and
//                      write_oas_model_c (writer: compression_level > 0), zlib as function parameters.
// The extracted models take inflate / deflate as arguments; the OCaml driver instantiates them with the finite
// TABLES of the case payload, which this harness computes by calling zlib directly with gdstk's parameters
// (inflateInit2(-15) + inflate(Z_FINISH) into avail_out bytes; deflateInit2(level, Z_DEFLATED, -15, 8,
// Z_DEFAULT_STRATEGY) + deflate(Z_FINISH)) - never by asking gdstk.
//
// kinds rdc-*: payload "<tag words> I<inflate table> x<hex bytes>"; the bytes are written to a file and loaded by
//   read_oas(file, 0, 0, &ec) in a forked child (I: canonical dump of c04r.cpp, or eof / overflow / invalid /
//   unsupported / zlib / crash / hang); the driver prints read_oas_model_c with the table (M, same text).
//   inflate table: entries "<z hex>/<avail_out hex>/=<output hex>" or ".../!" (not Z_STREAM_END) joined by ','.
//   The table holds every (compressed bytes, avail_out) pair a CBLOCK header found ANYWHERE in the file (any offset
//   with bytes 34, type 0, two integers) or inside the inflated content of such a block (nested) asks for; a query
//   outside the table makes the driver print "tablemiss" (not compared, counted).
//     rdc-gdstk : files written by write_oas with compression level 1-9 (random libraries of c04r's generator)
//                 P: dump(load(level k)) = dump(load(level 0)) on the implementation alone
//     rdc-enc   : files of the specification-level encoder with CBLOCKs around runs of cell-body records
//     rdc-wrap  : CBLOCKs placed by this harness around ARBITRARY byte ranges of a CBLOCK-free stream: at record
//                 boundaries, mid-record, nested, empty, two in a row; wrong uncompressed / compressed size, corrupted
//                 deflate data, unknown compression type, huge sizes
//     rdc-trunc : every prefix of small files with CBLOCKs / rdc-flip : one byte replaced
// kind wrc: payload "<layout seed> <variant> <level> D<deflate table> | <library text of c04w>": Library::write_oas with
//   compression level 1-9 (I: hex of the file) against write_oas_model_c with the table deflate (M), byte for byte.
//   deflate table: entries "<body hex>/<deflated hex>" for the body of every cell (taken from the level-0 file).
#include <fcntl.h>
#include <zlib.h>
#include <gdstk/gdstk.hpp>
#include "oas_layout.hpp"
#include "oas_scan.hpp"
#include "oas_encoder.hpp"

namespace rd {   // dump_lib, read_real_once, RandGen of the reader unit: the dump text is the same by construction
#define main c04r_main
#include "c04r.cpp"
#undef main
}
namespace wr {   // serialise, restrict_layout of the writer unit
#define main c04w_main
#include "c04w.cpp"
#undef main
}

using namespace gdstk;
using namespace oasl;
typedef std::vector<uint8_t> Bytes;

static std::string g_dir;
static bool g_thorough = false;

// ------------------------------------------------------------------ zlib with gdstk's parameters
// inflate(Z_FINISH) into avail_out bytes: true + output iff Z_STREAM_END
static bool inflate_gd(const Bytes& z, uint64_t avail_out, Bytes& out) {
    // a deflate stream expands by at most 1032:1: a smaller buffer is enough when avail_out is huge
    uint64_t cap = 1040ull * (uint64_t)z.size() + 4096;
    uint64_t room = avail_out < cap ? avail_out : cap;
    out.assign((size_t)room + 1, 0);
    static uint8_t dummy[1];
    z_stream s;
    memset(&s, 0, sizeof s);
    if (inflateInit2(&s, -15) != Z_OK) return false;
    s.next_in = z.empty() ? dummy : (Bytef*)z.data();
    s.avail_in = (uInt)z.size();
    s.next_out = out.data();
    s.avail_out = (uInt)room;
    int ret = inflate(&s, Z_FINISH);
    size_t produced = (size_t)s.total_out;
    inflateEnd(&s);
    out.resize(produced);
    return ret == Z_STREAM_END;
}
static Bytes deflate_gd(const Bytes& in, int level) {
    z_stream s;
    memset(&s, 0, sizeof s);
    deflateInit2(&s, level, Z_DEFLATED, -15, 8, Z_DEFAULT_STRATEGY);
    Bytes out(deflateBound(&s, (uLong)in.size()) + 16);
    static uint8_t dummy[1];
    s.next_in = in.empty() ? dummy : (Bytef*)in.data();
    s.avail_in = (uInt)in.size();
    s.next_out = out.data();
    s.avail_out = (uInt)out.size();
    deflate(&s, Z_FINISH);
    out.resize(s.total_out);
    deflateEnd(&s);
    return out;
}

// ------------------------------------------------------------------ the inflate table of a byte stream
struct Query { Bytes z; uint64_t n; };
// oasis_read_unsigned_integer on a buffer, with what it returns when the data ends (0 / the partial result; every later
// read gives 0) or overflows (2^64 - 1)
static bool rd_uint_at(const Bytes& b, size_t& i, uint64_t& v) {
    v = 0;
    if (i >= b.size()) return true;
    uint8_t c = b[i++];
    v = c & 0x7f;
    unsigned sh = 7;
    while (c & 0x80) {
        if (i >= b.size()) return true;
        c = b[i++];
        if (sh == 63 && c > 1) { v = 0xffffffffffffffffull; return true; }
        v |= (uint64_t)(c & 0x7f) << sh;
        sh += 7;
    }
    return true;
}
struct Table {
    std::vector<Query> qs;
    std::vector<std::pair<bool, Bytes>> rs;
    size_t limit = 48;
    // returns the index of the entry
    int add(const Bytes& z, uint64_t n) {
        for (size_t k = 0; k < qs.size(); k++)
            if (qs[k].n == n && qs[k].z == z) return (int)k;
        if (qs.size() >= limit) return -1;
        Bytes x;
        bool ok = inflate_gd(z, n, x);
        qs.push_back({z, n});
        rs.push_back({ok, x});
        return (int)qs.size() - 1;
    }
    // CBLOCK headers in `where` (any offset); the compressed bytes are taken from file[pos...]: pos = the offset after
    // the header when the header lies in the file itself (where == &file), else the given file position
    void scan(const Bytes& where, bool in_file, const Bytes& file, size_t file_pos, int depth) {
        for (size_t q = 0; q < where.size(); q++) {
            if (where[q] != 34) continue;
            size_t i = q + 1;
            uint64_t ty, U, C;
            if (!rd_uint_at(where, i, ty) || ty != 0) continue;
            if (!rd_uint_at(where, i, U) || !rd_uint_at(where, i, C)) continue;
            if (U >= (1ull << 36)) continue;                      // allocate() fails: zlib is not asked
            size_t p = in_file ? i : file_pos;
            uint64_t cn = C & 0xffffffffull, n = U & 0xffffffffull;
            size_t avail = p <= file.size() ? file.size() - p : 0;
            size_t take = cn < avail ? (size_t)cn : avail;
            Bytes z(file.begin() + (p <= file.size() ? p : file.size()), file.begin() + (p <= file.size() ? p : file.size()) + take);
            int k = add(z, n);
            // a nested header whose size integers fail (the end test of the enclosing buffer uses the new size) asks for no data
            if (!in_file) add(Bytes(), n);
            if (k >= 0 && rs[k].first && depth < 2 && !rs[k].second.empty()) {
                Bytes inner = rs[k].second;
                scan(inner, false, file, p + take, depth + 1);
            }
        }
    }
    std::string text() const {
        std::string s = "I";
        for (size_t k = 0; k < qs.size(); k++) {
            if (k) s += ",";
            s += hex_bytes(qs[k].z.data(), qs[k].z.size()) + "/" + hex_u64(qs[k].n) + "/";
            if (rs[k].first) s += "=" + hex_bytes(rs[k].second.data(), rs[k].second.size());
            else s += "!";
        }
        return s;
    }
};

// ------------------------------------------------------------------ the real reader
static std::string read_impl(const Bytes& bytes) {
    std::string r = rd::read_real_once(bytes, 10);
    if (r == "hang") r = rd::read_real_once(bytes, 90);
    if (r == "error" + std::to_string((int)ErrorCode::ZlibError)) r = "zlib";
    return r;
}

static void run_rdc(Out& out, const std::string& kind, const std::string& tag, const Bytes& bytes, const std::string* pline = NULL) {
    Table t;
    t.scan(bytes, true, bytes, 0, 0);
    std::string payload = tag + " " + t.text() + " x" + hex_bytes(bytes.data(), bytes.size());
    std::string id = out.add(kind, payload);
    std::string r = read_impl(bytes);
    out.I(id, r);
    if (pline) out.P(id, *pline);
    std::string cls = r.find('|') != std::string::npos ? (r.compare(0, 7, "MISSING") == 0 ? "loaded-missingref" : "loaded") : r;
    out.count("outcome:" + cls);
    out.count("outcome-" + kind + ":" + cls);
    out.count("table-entries", (long)t.qs.size());
}
// replay: the table is recomputed from the bytes
static void replay_rdc(Out& out, const std::string& kind, const std::string& payload) {
    size_t sp = payload.rfind(' ');
    std::string hex = sp == std::string::npos ? payload : payload.substr(sp + 1);
    if (!hex.empty() && hex[0] == 'x') hex = hex.substr(1);
    std::string tag = "replay";
    run_rdc(out, kind, tag, unhex(hex));
}

// ------------------------------------------------------------------ gdstk-written files
// raw file (CBLOCKs in place) of a random library; empty on failure
static Bytes gdstk_file(uint64_t ls, unsigned flags, unsigned level) {
    std::string res = in_child([&](FILE* o) {
        int dn = open("/dev/null", O_WRONLY);
        if (dn >= 0) dup2(dn, 2);
        set_error_logger(NULL);
        Rng lg(ls);
        Gen gen(lg, false);
        ALib L = gen.layout();
        Built b;
        build_library(L, b);
        std::string f = g_dir + "/w.oas";
        unlink(f.c_str());
        b.lib.write_oas(f.c_str(), 0, (uint8_t)level, (uint16_t)flags);
        Bytes file = rd::slurp(f);
        fputs(hex_bytes(file.data(), file.size()).c_str(), o);
    }, 30);
    if (res.compare(0, 5, "CRASH") == 0 || res == "HANG") return {};
    return unhex(res);
}

// ------------------------------------------------------------------ CBLOCK wrapping of a CBLOCK-free stream
static void put_uint(Bytes& b, uint64_t v) {
    while (true) {
        uint8_t c = v & 0x7f;
        v >>= 7;
        if (v) b.push_back(c | 0x80);
        else { b.push_back(c); break; }
    }
}
static Bytes cblock(const Bytes& inner, int level, uint64_t type, int64_t du, int64_t dc, int corrupt, Rng& g) {
    Bytes comp = deflate_gd(inner, level);
    if (corrupt == 1 && !comp.empty()) comp[g.below(comp.size())] ^= (uint8_t)(1u << g.below(8));
    if (corrupt == 2 && comp.size() > 1) comp.resize(comp.size() - 1 - g.below(comp.size() - 1));   // data cut short, size adapted
    Bytes o;
    o.push_back(34);
    put_uint(o, type);
    put_uint(o, (uint64_t)((int64_t)inner.size() + du));
    put_uint(o, (uint64_t)((int64_t)comp.size() + dc));
    o.insert(o.end(), comp.begin(), comp.end());
    return o;
}
// offset of the first record after START (the header cannot be compressed: it is read with fread)
static size_t after_start(const Bytes& b) {
    oscan::Scan sc = oscan::scan_file(b);
    if (sc.ok && sc.records.size() >= 2) return sc.records[1].offset;
    return 0;
}
static Bytes splice(const Bytes& b, size_t from, size_t to, const Bytes& mid) {
    Bytes o(b.begin(), b.begin() + from);
    o.insert(o.end(), mid.begin(), mid.end());
    o.insert(o.end(), b.begin() + to, b.end());
    return o;
}

struct Wrapped { Bytes bytes; std::string what; };
static Wrapped wrap_random(const Bytes& plain, Rng& g) {
    Wrapped w;
    oscan::Scan sc = oscan::scan_file(plain);
    size_t lo = after_start(plain);
    if (!sc.ok || lo == 0 || sc.records.size() < 4) { w.what = "none"; w.bytes = plain; return w; }
    std::vector<size_t> cuts;   // record boundaries after START, before END
    for (size_t i = 1; i < sc.records.size(); i++) cuts.push_back(sc.records[i].offset);
    size_t end_off = sc.records.back().offset;
    // a block must START at a record boundary (elsewhere its record byte is data of the record in progress); its END is a
    // record boundary (aligned) or any byte of the following records
    auto pick_range = [&](bool aligned, size_t& a, size_t& b) {
        size_t i = (size_t)g.below(cuts.size() - 1);
        a = cuts[i];
        if (aligned) {
            size_t j = i + 1 + (size_t)g.below(std::min<size_t>(cuts.size() - 1 - i, 14));
            b = cuts[j];
        } else {
            b = a + 1 + (size_t)g.below(std::min<size_t>(end_off - a, 60));
            if (g.chance(4)) a = lo + (size_t)g.below(b - lo);      // now and then a start inside a record as well
        }
    };
    auto cut_in = [&](size_t a, size_t b) {   // a record boundary in [a, b], a if there is none
        std::vector<size_t> c;
        for (size_t x : cuts) if (x >= a && x <= b) c.push_back(x);
        return c.empty() ? a : c[g.below(c.size())];
    };
    int mode = (int)g.below(100);
    int level = (int)g.range(1, 9);
    size_t a, b;
    if (mode < 22) {               // at record boundaries
        pick_range(true, a, b);
        Bytes in(plain.begin() + a, plain.begin() + b);
        w.bytes = splice(plain, a, b, cblock(in, level, 0, 0, 0, 0, g));
        w.what = "aligned";
    } else if (mode < 40) {        // arbitrary byte range: starts / ends inside records
        pick_range(false, a, b);
        Bytes in(plain.begin() + a, plain.begin() + b);
        w.bytes = splice(plain, a, b, cblock(in, level, 0, 0, 0, 0, g));
        w.what = "midrecord";
    } else if (mode < 50) {        // two blocks in a row (second starts where the first ends), or overlapping END
        pick_range(g.coin(), a, b);
        size_t m = g.coin() ? cut_in(a, b) : a + (b - a) / 2;
        Bytes in1(plain.begin() + a, plain.begin() + m), in2(plain.begin() + m, plain.begin() + b);
        Bytes mid = cblock(in1, level, 0, 0, 0, 0, g);
        Bytes c2 = cblock(in2, level, 0, 0, 0, 0, g);
        mid.insert(mid.end(), c2.begin(), c2.end());
        w.bytes = splice(plain, a, b, mid);
        w.what = "two";
    } else if (mode < 62) {        // nested: a CBLOCK inside the data of a CBLOCK
        pick_range(g.chance(60), a, b);
        size_t ia = g.chance(85) ? cut_in(a, b) : a + (size_t)g.below(b - a), ib = g.coin() ? cut_in(ia, b) : ia + (size_t)g.below(b - ia + 1);
        Bytes inner(plain.begin() + ia, plain.begin() + ib);
        // the compressed bytes of the inner block come from the FILE (after the outer data): they are placed there
        Bytes ic = cblock(inner, level, 0, 0, 0, 0, g);
        // header of the inner block (34, type, sizes) inside the outer data, its data after the outer block
        size_t hdr = 1;
        { size_t i = 1; uint64_t v; rd_uint_at(ic, i, v); rd_uint_at(ic, i, v); rd_uint_at(ic, i, v); hdr = i; }
        Bytes outer_in(plain.begin() + a, plain.begin() + ia);
        outer_in.insert(outer_in.end(), ic.begin(), ic.begin() + hdr);
        bool tail_inside = g.coin();   // what follows the inner header in the outer buffer is lost
        if (tail_inside) outer_in.insert(outer_in.end(), plain.begin() + ib, plain.begin() + b);
        Bytes mid = cblock(outer_in, level, 0, 0, 0, 0, g);
        mid.insert(mid.end(), ic.begin() + hdr, ic.end());
        if (!tail_inside) mid.insert(mid.end(), plain.begin() + ib, plain.begin() + b);
        w.bytes = splice(plain, a, b, mid);
        w.what = tail_inside ? "nested-tail-lost" : "nested";
    } else if (mode < 68) {        // empty block
        a = g.coin() ? cuts[g.below(cuts.size())] : lo + (size_t)g.below(end_off - lo);
        w.bytes = splice(plain, a, a, cblock(Bytes(), level, 0, 0, 0, 0, g));
        w.what = "empty";
    } else if (mode < 78) {        // wrong uncompressed size
        pick_range(g.coin(), a, b);
        Bytes in(plain.begin() + a, plain.begin() + b);
        int64_t du = g.coin() ? (int64_t)g.range(1, 5) : -(int64_t)g.range(1, (int64_t)std::min<size_t>(in.size(), 5));
        if (g_thorough && g.chance(2) && g.chance(4)) du = (int64_t)(1ull << (32 + g.below(6)));   // (uInt) truncation of avail_out: rare, the real reader then walks 2^32 zero bytes
        w.bytes = splice(plain, a, b, cblock(in, level, 0, du, 0, 0, g));
        w.what = du > 0 ? "usize-larger" : "usize-smaller";
    } else if (mode < 86) {        // wrong compressed size
        pick_range(g.coin(), a, b);
        Bytes in(plain.begin() + a, plain.begin() + b);
        int64_t dc = g.coin() ? (int64_t)g.range(1, 6) : -(int64_t)g.range(1, 3);
        if (g.chance(10)) dc = (int64_t)(1ull << 32);       // (uInt) truncation: the same block
        if (g.chance(10)) dc = 100000;                      // beyond the end of the file
        w.bytes = splice(plain, a, b, cblock(in, level, 0, 0, dc, 0, g));
        w.what = dc > 0 ? "csize-larger" : "csize-smaller";
    } else if (mode < 93) {        // damaged deflate data
        pick_range(g.coin(), a, b);
        Bytes in(plain.begin() + a, plain.begin() + b);
        int c = g.coin() ? 1 : 2;
        w.bytes = splice(plain, a, b, cblock(in, level, 0, 0, 0, c, g));
        w.what = c == 1 ? "corrupt-bit" : "corrupt-short";
    } else {                       // unknown compression type
        pick_range(g.coin(), a, b);
        Bytes in(plain.begin() + a, plain.begin() + b);
        uint64_t ty = g.chance(30) ? 1 : g.chance(20) ? (1ull << 40) : g.chance(10) ? 0xffffffffffffffffull : (uint64_t)g.range(1, 300);
        w.bytes = splice(plain, a, b, cblock(in, level, ty, 0, 0, 0, g));
        w.what = "type";
    }
    return w;
}

// ------------------------------------------------------------------ writer under compression (kind wrc)
static std::string deflate_table(const Bytes& plain_file, int level) {
    // cell bodies of the level-0 file: the bytes between the end of a CELL record and the next CELL / CELLNAME record
    std::string s = "D";
    oscan::Scan sc = oscan::scan_file(plain_file);
    if (!sc.ok) return s;
    bool first = true;
    for (size_t i = 0; i + 1 < sc.records.size(); i++) {
        if (sc.records[i].id != 13 && sc.records[i].id != 14) continue;
        size_t from = sc.records[i + 1].offset, j = i + 1;
        while (j < sc.records.size() && !(sc.records[j].id == 13 || sc.records[j].id == 14 || (sc.records[j].id >= 2 && sc.records[j].id <= 10))) j++;
        size_t to = j < sc.records.size() ? sc.records[j].offset : plain_file.size();
        if (to <= from) continue;
        Bytes body(plain_file.begin() + from, plain_file.begin() + to);
        Bytes z = deflate_gd(body, level);
        if (!first) s += ",";
        first = false;
        s += hex_bytes(body.data(), body.size()) + "/" + hex_bytes(z.data(), z.size());
    }
    return s;
}
static void run_wrc(Out& out, uint64_t ls, unsigned variant, unsigned level) {
    Rng lg(ls);
    Gen gen(lg, true);
    ALib L = gen.layout();
    wr::restrict_layout(L, lg, NULL);
    bool cell_offset = variant & 1;
    std::string text = wr::serialise(L, cell_offset);
    auto write_with = [&](unsigned lvl) {
        return in_child([&](FILE* o) {
            set_error_logger(NULL);
            Built b;
            build_library(L, b);
            for (uint64_t ci = 0; ci < b.lib.cell_array.count; ci++) {
                Cell* c = b.lib.cell_array[ci];
                for (uint64_t k = 0; k < c->flexpath_array.count; k++) c->flexpath_array[k]->simple_path = true;
                if (c->robustpath_array.count > 0) { fputs("UNSUPPORTED-robustpath", o); return; }
            }
            std::string f = g_dir + "/w.oas";
            unlink(f.c_str());
            b.lib.write_oas(f.c_str(), 0.0, (uint8_t)lvl, (uint16_t)(cell_offset ? OASIS_CONFIG_PROPERTY_CELL_OFFSET : 0));
            Bytes file = rd::slurp(f);
            fputs(hex_bytes(file.data(), file.size()).c_str(), o);
        }, 20);
    };
    std::string plain = write_with(0);
    if (plain.empty() || plain[0] == 'U' || plain[0] == 'C' || plain[0] == 'H') { out.count("wrc:skipped"); return; }
    std::string tab = deflate_table(unhex(plain), (int)level);
    char head[96];
    snprintf(head, sizeof head, "%llu %u %u ", (unsigned long long)ls, variant, level);
    std::string id = out.add("wrc", head + tab + " | " + text);
    std::string res = write_with(level);
    out.I(id, res);
    out.count("wrc:level" + std::to_string(level));
    out.count(cell_offset ? "wrc:cell-offset" : "wrc:plain");
    // P: load(save_compressed) = load(save_uncompressed), on the implementation alone
    if (res.size() > 2 && res[0] != 'C' && res[0] != 'H') {
        std::string d0 = read_impl(unhex(plain)), d1 = read_impl(unhex(res));
        out.P(id, d0 == d1 ? "ok" : "FAIL oas-cblock:roundtrip-differs level " + std::to_string(level));
    }
}

int main(int argc, char** argv) {
    if (argc < 4) {
        fprintf(stderr, "usage: oas_cblock seed tier outdir [corpus] [replay]\n");
        return 2;
    }
    uint64_t seed = strtoull(argv[1], NULL, 10);
    bool thorough = strcmp(argv[2], "thorough") == 0;
    g_thorough = thorough;
    g_dir = argv[3];
    rd::g_outdir = argv[3];
    wr::g_outdir = argv[3];
    set_error_logger(NULL);
    Out out;
    out.open(argv[3]);
    const char* kinds = getenv("VERIF_KINDS");
    auto want = [&](const char* k) { return !kinds || strstr(kinds, k) != NULL; };
    if (argc > 5) {
        std::string k, p;
        if (load_replay(argv[5], k, p)) {
            if (k == "wrc") {
                unsigned long long ls = 0;
                unsigned variant = 0, level = 1;
                if (sscanf(p.c_str(), "%llu %u %u", &ls, &variant, &level) == 3) run_wrc(out, ls, variant, level);
            } else replay_rdc(out, k, p);
        }
        out.close();
        return 0;
    }
    Rng g(seed * 0x100000001B3ULL + 12345);
    char tag[128];
    std::vector<Bytes> plains;   // CBLOCK-free streams to wrap
    std::vector<Bytes> packed;   // small files with CBLOCKs for truncation / flips

    if (want("rdc")) {
        // (a) gdstk's own writer, levels 1-9
        long ngd = thorough ? 4000 : 70;
        unsigned counter = (unsigned)g.below(256);
        for (long i = 0; i < ngd; i++) {
            uint64_t ls = g.next() >> 1;
            unsigned flags = (counter++ * 37u) & 0xFFu;
            unsigned level = 1 + (unsigned)g.below(9);
            Bytes b = gdstk_file(ls, flags, level);
            if (b.empty()) { out.count("gdstk:write-failed"); continue; }
            Bytes b0 = gdstk_file(ls, flags & ~(unsigned)(OASIS_CONFIG_INCLUDE_CRC32 | OASIS_CONFIG_INCLUDE_CHECKSUM32), 0);
            std::string pl;
            if (!b0.empty()) {
                // flags that put file positions into the layout differ between the two files by construction
                bool positional = flags & OASIS_CONFIG_PROPERTY_CELL_OFFSET;
                std::string d0 = read_impl(b0), d1 = read_impl(b);
                pl = (d0 == d1 || positional) ? "ok" : "FAIL oas-cblock:roundtrip-differs level " + std::to_string(level);
            }
            snprintf(tag, sizeof tag, "%llu %x %u", (unsigned long long)ls, flags, level);
            run_rdc(out, "rdc-gdstk", tag, b, pl.empty() ? NULL : &pl);
            if (b.size() < 600 && packed.size() < (thorough ? 300u : 40u) && g.chance(40)) packed.push_back(b);
            if (!b0.empty() && b0.size() < 900 && plains.size() < 400 && g.chance(30)) plains.push_back(b0);
        }
        // (b) specification-level encoder: CBLOCKs around runs of cell-body records
        long nenc = thorough ? 20000 : 500;
        for (long i = 0; i < nenc; i++) {
            uint64_t es = g.next() >> 1;
            Rng eg(es);
            oasenc::Encoded e = oasenc::encode_random(eg);
            if (e.plain.size() < 900 && plains.size() < (thorough ? 3000u : 300u)) plains.push_back(e.plain);
            if (e.file == e.plain) continue;
            snprintf(tag, sizeof tag, "%llu", (unsigned long long)es);
            run_rdc(out, "rdc-enc", tag, e.file);
            if (e.file.size() < 500 && packed.size() < (thorough ? 600u : 70u) && g.chance(30)) packed.push_back(e.file);
        }
        // reader-grammar-directed random records as further material to wrap
        long nrand = thorough ? 6000 : 400;
        for (long i = 0; i < nrand; i++) {
            Rng rg(g.next() >> 1);
            rd::RandGen gen(rg);
            Bytes b = gen.run();
            // mostly streams that load: a stream that stops at an unsupported record never reaches the blocks behind it
            if (b.size() < 1500 && (g.chance(15) || read_impl(b).find('|') != std::string::npos)) plains.push_back(b);
        }
        out.count("plains", (long)plains.size());
        // (c) blocks placed by this harness
        long nwrap = thorough ? 60000 : 1500;
        for (long i = 0; i < nwrap && !plains.empty(); i++) {
            size_t bi = (size_t)g.below(plains.size());
            Wrapped w = wrap_random(plains[bi], g);
            if (w.what == "none") continue;
            out.count("wrap:" + w.what);
            snprintf(tag, sizeof tag, "p%zu %s", bi, w.what.c_str());
            run_rdc(out, "rdc-wrap", tag, w.bytes);
            // (a block that ends inside a record with a multi-byte read makes the model say "any result" for every prefix)
            if ((w.what == "aligned" || w.what == "nested" || w.what == "two" || w.what == "type" || (w.what == "midrecord" && g.chance(25))) && w.bytes.size() < 400 &&
                packed.size() < (thorough ? 900u : 100u) && g.chance(20))
                packed.push_back(w.bytes);
        }
        out.count("packed", (long)packed.size());
        // (d) truncation at every offset of the first small files, random offsets and flips afterwards
        size_t nfull = thorough ? 40 : 3;
        for (size_t bi = 0; bi < packed.size() && bi < nfull; bi++) {
            const Bytes& b = packed[packed.size() - 1 - bi];
            for (size_t k = 0; k < b.size(); k++) {
                snprintf(tag, sizeof tag, "b%zu@%zu", bi, k);
                run_rdc(out, "rdc-trunc", tag, Bytes(b.begin(), b.begin() + k));
            }
        }
        long nmal = thorough ? 30000 : 600;
        for (long i = 0; i < nmal && !packed.empty(); i++) {
            size_t bi = (size_t)g.below(packed.size());
            Bytes b = packed[bi];
            if (g.chance(30)) {
                size_t k = (size_t)g.below(b.size());
                snprintf(tag, sizeof tag, "b%zu@%zu", bi, k);
                run_rdc(out, "rdc-trunc", tag, Bytes(b.begin(), b.begin() + k));
            } else {
                size_t k = 13 + (size_t)g.below(b.size() - 13);
                uint8_t old = b[k];
                switch (g.below(4)) {
                    case 0: b[k] = (uint8_t)g.below(256); break;
                    case 1: b[k] = (uint8_t)(old ^ (1u << g.below(8))); break;
                    case 2: b[k] = (uint8_t)(old + 1); break;
                    default: b[k] = (uint8_t)(old | 0x80); break;
                }
                snprintf(tag, sizeof tag, "b%zu@%zu:%02x", bi, k, (unsigned)b[k]);
                run_rdc(out, "rdc-flip", tag, b);
            }
        }
    }
    if (want("wrc")) {
        long nw = thorough ? 6000 : 150;
        for (long i = 0; i < nw; i++) {
            uint64_t ls = g.next() >> 1;
            run_wrc(out, ls, (unsigned)g.below(2), 1 + (unsigned)g.below(9));
        }
    }
    out.close();
    return 0;
}
