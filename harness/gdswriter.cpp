// Unit gdswriter (C03 / C17): the incremental writer GdsWriter (gdswriter_init / write_cell / write_rawcell / close),
// RawCell::to_gds and the raw-cell part of Library::write_gds against coq/GdsWriterModel.v, byte for byte.
//
// kinds
//   ses   a session: 1-2 GdsWriter objects alive at the same time (random names of odd / even length, units, max_points),
//         0-2 source files written by Library::write_gds whose raw cells (read_rawcells) are written in any selection /
//         order / repetition, mixed with ordinary grid cells (harness/layoutgen.hpp); a source file may be cut short
//         before the first write (pread then comes back short).  I = error flag of every call, number of RawSource files
//         still open at the end, bytes of every file.  M = gdswriter model (session_run).
//   lib   Library::write_gds of a library holding cells AND raw cells.  M = library_write_gds_model.
//   dec   every file produced by a ses / lib case: I = dump of read_gds(file), M = read_gds_model, S = the strict decoder
//         spec_decode; P = the load equals the cells written + the cells the raw cells are in the full load of their source.
//   clo   dependency closure of a raw cell: RawCell::get_dependencies(true) + the root versus raw_closure (M and S).
// payload of ses / lib (sections separated by " ; "):
//   T y m d h mi s ; W namehex u0 u1 mp (one per writer) | L namehex u0 u1 mp ; F filehex keep ; C w CELL ... ; R w f i
#include <algorithm>
#include <set>
#include "gdsdump.hpp"

static std::string scratch;
static std::set<std::string> kinds;
static bool want(const char* k) { return kinds.empty() || kinds.count(k); }

// same adjustment as harness/gds.cpp: the write plan cannot predict the AREF decision for a skew lattice under a
// rotation that is not a quarter turn
static void fix_library_for_plan(Library& lib, const GenOpts& o) {
    for (uint64_t i = 0; i < lib.cell_array.count; i++) {
        Cell* c = lib.cell_array[i];
        for (uint64_t j = 0; j < c->reference_array.count; j++) {
            Reference* r = c->reference_array[j];
            bool q;
            quarter_turns(r->rotation, q);
            if (r->repetition.type == RepetitionType::Regular && !q) {
                r->rotation = 0.3;
                r->repetition.v1 = Vec2{32 * o.grid, 16 * o.grid};
                r->repetition.v2 = Vec2{-16 * o.grid, 48 * o.grid};
            }
        }
    }
}

struct WriterCfg {
    std::string name;
    double unit, precision;
    uint64_t mp;
};

struct SrcFile {
    std::string path;
    std::vector<uint8_t> bytes;
    size_t keep;  // bytes left in the file when the session runs
    Library lib;  // the generated library (freed at the end of the iteration)
    int ncells;
};

struct Op {
    bool raw;
    int w;
    int f, i;     // raw: source file, creation index
    Cell* cell;   // ordinary cell
};

// "CELL namehex elems..." of one cell under the writer's units (bits = write plan, else the expected load)
static std::string cell_plan(Cell* cell, double unit, double precision, bool bits) {
    Library one = {};
    one.name = (char*)"x";
    one.unit = unit;
    one.precision = precision;
    one.cell_array.append(cell);
    DumpCfg c;
    c.factor = precision / unit;
    c.bits = bits;
    c.sort_props = !bits;
    std::string s = write_plan(one, c, 0, 0);
    one.cell_array.clear();
    size_t p = s.find(" CELL ");
    return p == std::string::npos ? "" : s.substr(p + 1);
}

static std::string one_cell_dump(Cell* cell, double factor) {
    Library one = {};
    one.name = (char*)"x";
    one.cell_array.append(cell);
    DumpCfg c;
    c.factor = factor;
    c.sort_props = true;
    std::string s = dump_loaded(one, c);
    one.cell_array.clear();
    size_t p = s.find(" CELL ");
    return p == std::string::npos ? "" : s.substr(p + 1);
}

static uint64_t max_poly_count(Cell* c) {
    uint64_t m = 0;
    for (uint64_t j = 0; j < c->polygon_array.count; j++) m = std::max(m, c->polygon_array[j]->point_array.count);
    return m;
}

// raw cells of a read_rawcells result in creation (= file offset) order; call before any to_gds
static std::vector<RawCell*> by_offset(Map<RawCell*>& rc) {
    std::vector<RawCell*> v;
    for (MapItem<RawCell*>* it = rc.next(NULL); it; it = rc.next(it)) v.push_back(it->value);
    std::sort(v.begin(), v.end(), [](RawCell* a, RawCell* b) { return a->offset < b->offset; });
    return v;
}

static void dec_case(Out& out, const std::string& path, const std::string& expect, bool produced, double unit, double precision) {
    std::vector<uint8_t> gb = read_file(path);
    std::string id = out.add("dec", hex_bytes(gb.data(), gb.size()));
    std::string st;
    std::string res = in_child([&](FILE* o) {
        ErrorCode err = ErrorCode::NoError;
        Library lib = read_gds(path.c_str(), 0, 0, NULL, &err);
        if ((int)err >= (int)ErrorCode::ChecksumError) {
            fprintf(o, "ERR %d", (int)err);
            return;
        }
        DumpCfg c;
        c.factor = lib.precision / lib.unit;
        std::string sorted;
        {
            std::string s = "LIB " + hexs(lib.name ? lib.name : "");
            for (uint64_t i = 0; i < lib.cell_array.count; i++) s += " " + one_cell_dump(lib.cell_array[i], c.factor);
            sorted = s;
        }
        fprintf(o, "OK\t%s\t%s\t%s %s", dump_loaded(lib, c).c_str(), sorted.c_str(), hex_dbl(lib.unit).c_str(), hex_dbl(lib.precision).c_str());
    }, 60);
    std::string loaded, sorted, units;
    if (res.compare(0, 2, "OK") == 0) {
        size_t a = res.find('\t'), b = res.find('\t', a + 1), c2 = res.find('\t', b + 1);
        loaded = res.substr(a + 1, b - a - 1);
        sorted = res.substr(b + 1, c2 - b - 1);
        units = res.substr(c2 + 1);
        out.I(id, loaded);
    } else {
        out.I(id, res);
    }
    if (!produced) out.P(id, "FAIL gdswriter-session the session did not complete");
    else if (sorted == expect && units != hex_dbl(unit) + " " + hex_dbl(precision)) out.P(id, "FAIL gdswriter-units the file loads with another unit / precision than the writer was given");
    else if (sorted == expect) out.P(id, "ok");
    else out.P(id, "FAIL gdswriter-load the file written through GdsWriter / Library::write_gds does not load to the cells written and the cells its raw cells are in their source file");
}

int main(int argc, char** argv) {
    if (argc < 4) return 2;
    uint64_t seed = strtoull(argv[1], NULL, 10);
    bool thorough = strcmp(argv[2], "thorough") == 0;
    scratch = argv[3];
    set_error_logger(NULL);
    freopen("/dev/null", "w", stderr);
    if (const char* k = getenv("VERIF_KINDS")) {
        std::string s(k);
        size_t p = 0;
        while (p <= s.size()) {
            size_t e = s.find(',', p);
            if (e == std::string::npos) e = s.size();
            if (e > p) kinds.insert(s.substr(p, e - p));
            p = e + 1;
        }
    }
    Out out;
    out.open(argv[3]);
    Rng g(seed * 0x100000001B3ULL + 12345);
    const std::string ts = "T 2020 6 17 11 22 33";
    static const double units_[] = {1.0, 1e-6, 1.0, 0.5, 1e-3};
    static const double ratio_[] = {1024, 1024, 2048, 1024, 2048};  // unit / precision: the generator's grid is 1/1024
    int niter = thorough ? 40000 : 700;
    for (int it = 0; it < niter; it++) {
        bool libkind = it % 5 == 4;
        GenOpts o;
        o.max_cells = 1 + (int)g.below(4);
        o.max_elems = 1 + (int)g.below(5);
        if (it % 7 == 3) o.with_reps = false;
        if (it % 3 == 1) o.offgrid = true;
        // ---- source files (gdstk-written), with dependency chains / shared dependencies
        int nsrc = libkind ? (int)g.below(2) + (g.chance(70) ? 1 : 0) : (int)g.below(3);
        if (nsrc > 2) nsrc = 2;
        std::vector<SrcFile> src((size_t)nsrc);
        for (int f = 0; f < nsrc; f++) {
            GenOpts so = o;
            so.max_cells = 2 + (int)g.below(4);
            so.offgrid = false;
            src[f].lib = gen_library(g, so);
            Library& sl = src[f].lib;
            // extra references to earlier cells: chains (c -> c-1 -> c-2 ...) and shared dependencies (several -> 0)
            for (uint64_t c = 1; c < sl.cell_array.count; c++) {
                if (g.chance(60)) sl.cell_array[c]->reference_array.append(gen_reference(g, so, sl.cell_array[c - 1], NULL));
                if (g.chance(40)) sl.cell_array[c]->reference_array.append(gen_reference(g, so, sl.cell_array[0], NULL));
            }
            fix_library_for_plan(sl, so);
            src[f].path = scratch + "/src" + std::to_string(f) + ".gds";
            tm t0 = fixed_tm();
            t0.tm_year = 101 + f;  // the raw bytes carry the source's own timestamps
            sl.write_gds(src[f].path.c_str(), 0, &t0);
            src[f].bytes = read_file(src[f].path);
            src[f].keep = src[f].bytes.size();
            src[f].ncells = (int)sl.cell_array.count;
            if (g.chance(12)) {  // the file shrinks between read_rawcells and the first write
                src[f].keep = g.chance(50) ? g.below(src[f].bytes.size()) : src[f].bytes.size() - 1 - g.below(40 < src[f].bytes.size() ? 40 : 1);
                out.count("short-source");
            }
        }
        // ---- ordinary cells
        Library cl = gen_library(g, o);
        fix_library_for_plan(cl, o);
        // ---- writers
        int nw = libkind ? 1 : (g.chance(30) ? 2 : 1);
        std::vector<WriterCfg> wc((size_t)nw);
        uint64_t maxpts = 0;
        for (uint64_t i = 0; i < cl.cell_array.count; i++) maxpts = std::max(maxpts, max_poly_count(cl.cell_array[i]));
        for (int w = 0; w < nw; w++) {
            wc[w].name = rand_name(g, 9);
            int ui = (int)g.below(5);
            wc[w].unit = units_[ui];
            wc[w].precision = units_[ui] / ratio_[ui];
            switch (g.below(8)) {
                case 0: wc[w].mp = 0; break;
                case 1: wc[w].mp = 3; break;
                case 2: wc[w].mp = 4; break;
                case 3: case 4: case 5: wc[w].mp = maxpts > 4 ? maxpts : 199; break;  // exactly the largest polygon: `count > max_points` is false
                case 6: wc[w].mp = maxpts + 3; break;
                default: wc[w].mp = 199;
            }
            if (wc[w].mp > 4 && wc[w].mp < maxpts) wc[w].mp = maxpts;
            out.count(wc[w].name.size() % 2 ? "name:odd" : "name:even");
            out.count(wc[w].mp > 4 && wc[w].mp == maxpts ? "max_points:exact" : wc[w].mp > 4 ? "max_points:above" : "max_points:off");
        }
        // ---- ops
        std::vector<Op> ops;
        {
            int ncell = (int)cl.cell_array.count;
            if (nsrc > 0 && g.chance(25)) ncell = (int)g.below((uint64_t)ncell + 1);
            for (int i = 0; i < ncell; i++) ops.push_back(Op{false, (int)g.below((uint64_t)nw), 0, 0, cl.cell_array[i]});
            for (int f = 0; f < nsrc; f++) {
                int nr = (int)g.below((uint64_t)src[f].ncells + 2);
                for (int k = 0; k < nr; k++) ops.push_back(Op{true, (int)g.below((uint64_t)nw), f, (int)g.below((uint64_t)src[f].ncells), NULL});
                if (nr > 0 && g.chance(35)) {  // the same raw cell again: through the same or through the other writer
                    Op again = ops[ops.size() - 1 - g.below((uint64_t)nr)];
                    if (again.raw) {
                        again.w = (int)g.below((uint64_t)nw);
                        ops.push_back(again);
                        out.count("raw-twice");
                    }
                }
            }
            if (!libkind) {  // mixed order
                for (size_t i = ops.size(); i > 1; i--) std::swap(ops[i - 1], ops[g.below(i)]);
            } else {  // cell_array order, then rawcell_array order
                std::stable_sort(ops.begin(), ops.end(), [](const Op& a, const Op& b) { return !a.raw && b.raw; });
            }
        }
        bool anyraw = false, anycell = false;
        for (auto& op : ops) (op.raw ? anyraw : anycell) = true;
        out.count(anyraw && anycell ? "session:mixed" : anyraw ? "session:raw-only" : anycell ? "session:cells-only" : "session:empty");
        if (nw > 1) out.count("session:two-writers");
        // ---- payload
        std::string payload = ts;
        for (int w = 0; w < nw; w++) {
            char ub[80];
            snprintf(ub, sizeof ub, " %016llx %016llx %llx", (unsigned long long)gdsii_real_from_double(wc[w].precision / wc[w].unit),
                     (unsigned long long)gdsii_real_from_double(wc[w].precision), (unsigned long long)wc[w].mp);
            payload += std::string(" ; ") + (libkind ? "L " : "W ") + hexs(wc[w].name.c_str()) + ub;
        }
        for (int f = 0; f < nsrc; f++) payload += " ; F " + hex_bytes(src[f].bytes.data(), src[f].bytes.size()) + " " + hex_u64(src[f].keep);
        for (auto& op : ops) {
            if (op.raw) payload += " ; R " + std::to_string(op.w) + " " + std::to_string(op.f) + " " + std::to_string(op.i);
            else payload += " ; C " + std::to_string(op.w) + " " + cell_plan(op.cell, wc[op.w].unit, wc[op.w].precision, true);
        }
        const char* kind = libkind ? "lib" : "ses";
        std::vector<std::string> outpath((size_t)nw);
        for (int w = 0; w < nw; w++) outpath[w] = scratch + "/out" + std::to_string(w) + ".gds";
        for (int w = 0; w < nw; w++) remove(outpath[w].c_str());
        // ---- run (forked: a crash of the library is an outcome)
        std::string res = in_child([&](FILE* o2) {
            int fds0 = count_fds();
            ErrorCode err = ErrorCode::NoError;
            std::vector<Map<RawCell*>> maps((size_t)nsrc);
            std::vector<std::vector<RawCell*>> raws((size_t)nsrc);
            for (int f = 0; f < nsrc; f++) {
                maps[f] = read_rawcells(src[f].path.c_str(), &err);
                raws[f] = by_offset(maps[f]);
                if ((int)raws[f].size() != src[f].ncells) { fprintf(o2, "read_rawcells found %d raw cells, expected %d", (int)raws[f].size(), src[f].ncells); return; }
                if (src[f].keep != src[f].bytes.size()) truncate(src[f].path.c_str(), (off_t)src[f].keep);
            }
            std::string errs, dead;  // dead: one character per call, 1 = the call appends nothing (failed read, now or earlier)
            tm t2 = fixed_tm();
            if (libkind) {
                // which raw cells can still be read in full (before any to_gds: offset and size are the recorded range)
                for (auto& op : ops) dead += op.raw && raws[op.f][op.i]->offset + raws[op.f][op.i]->size > src[op.f].keep ? "1" : "0";
                Library lib = {};
                lib.name = (char*)wc[0].name.c_str();
                lib.unit = wc[0].unit;
                lib.precision = wc[0].precision;
                for (auto& op : ops) {
                    if (op.raw) lib.rawcell_array.append(raws[op.f][op.i]);
                    else lib.cell_array.append(op.cell);
                }
                ErrorCode e = lib.write_gds(outpath[0].c_str(), wc[0].mp, &t2);
                errs = e == ErrorCode::NoError ? "0" : "1";
                lib.cell_array.clear();
                lib.rawcell_array.clear();
            } else {
                std::vector<GdsWriter> ws;
                for (int w = 0; w < nw; w++) ws.push_back(gdswriter_init(outpath[w].c_str(), wc[w].name.c_str(), wc[w].unit, wc[w].precision, wc[w].mp, &t2, &err));
                std::set<std::pair<int, int>> failed;
                for (auto& op : ops) {
                    ErrorCode e = op.raw ? ws[op.w].write_rawcell(*raws[op.f][op.i]) : ws[op.w].write_cell(*op.cell);
                    errs += e == ErrorCode::NoError ? "0" : "1";
                    if (op.raw && e != ErrorCode::NoError) failed.insert({op.f, op.i});
                    dead += op.raw && failed.count({op.f, op.i}) ? "1" : "0";
                }
                for (int w = 0; w < nw; w++) ws[w].close();
            }
            int fds1 = count_fds();
            // every raw cell cleared: no descriptor may stay behind
            for (int f = 0; f < nsrc; f++) {
                for (RawCell* r : raws[f]) { r->clear(); free_allocation(r); }
                maps[f].clear();
            }
            int fds2 = count_fds();
            fprintf(o2, "DONE %s %d %d %s", errs.empty() ? "-" : errs.c_str(), fds1 - fds0, fds2 - fds0, dead.empty() ? "-" : dead.c_str());
        }, 120);
        bool done = res.compare(0, 5, "DONE ") == 0;
        std::string errs = "-", deadf = "-";
        int open_after = -1, leak = -1;
        if (done) {
            char eb[4096], db[4096];
            sscanf(res.c_str() + 5, "%4000s %d %d %4000s", eb, &open_after, &leak, db);
            errs = eb;
            deadf = db;
        }
        if (want(kind)) {
            std::string id = out.add(kind, payload);
            if (!done) out.I(id, res);
            else {
                std::string line = "E " + errs;
                if (!libkind) line += " OPEN " + std::to_string(open_after);
                for (int w = 0; w < nw; w++) {
                    std::vector<uint8_t> gb = read_file(outpath[w]);
                    line += " ; OUT " + hex_bytes(gb.data(), gb.size());
                }
                out.I(id, line);
            }
            out.P(id, !done ? "FAIL gdswriter-session the calls crashed or did not return: " + res
                      : leak != 0 ? "FAIL rawcell-fd-leak a RawSource file stays open after every raw cell was cleared"
                                  : "ok");
        }
        // ---- dec: every produced file, and the load it must have
        if (want("dec")) {
            std::vector<Library> orig((size_t)nsrc);
            ErrorCode err = ErrorCode::NoError;
            for (int f = 0; f < nsrc; f++) {
                write_file(src[f].path, src[f].bytes.data(), src[f].bytes.size());  // undo the cut
                orig[f] = read_gds(src[f].path.c_str(), 0, 0, NULL, &err);
            }
            for (int w = 0; w < nw; w++) {
                // a raw cell whose first write failed (source cut short) stays empty: it contributes nothing, then and later
                std::string expect = "LIB " + hexs(wc[w].name.c_str());
                size_t kk = 0;
                for (auto& op : ops) {
                    bool dead = done && kk < deadf.size() && deadf[kk] == '1';
                    kk++;
                    if (op.w != w) continue;
                    if (!op.raw) expect += " " + cell_plan(op.cell, wc[w].unit, wc[w].precision, false);
                    else if (!dead) expect += " " + one_cell_dump(orig[op.f].cell_array[op.i], orig[op.f].precision / orig[op.f].unit);
                }
                dec_case(out, outpath[w], expect, done, wc[w].unit, wc[w].precision);
            }
            for (int f = 0; f < nsrc; f++) orig[f].free_all();
        }
        // ---- clo: dependency closure of one raw cell per source file
        std::vector<int> roots;
        for (int f = 0; f < nsrc; f++) roots.push_back((int)g.below((uint64_t)src[f].ncells));
        if (want("clo") && !libkind) {
            for (int f = 0; f < nsrc; f++) {
                write_file(src[f].path, src[f].bytes.data(), src[f].bytes.size());
                int root = roots[f];
                std::string id = out.add("clo", hex_bytes(src[f].bytes.data(), src[f].bytes.size()) + " " + std::to_string(root));
                out.I(id, in_child([&](FILE* o2) {
                    ErrorCode err = ErrorCode::NoError;
                    Map<RawCell*> rc = read_rawcells(src[f].path.c_str(), &err);
                    std::vector<RawCell*> v = by_offset(rc);
                    Map<RawCell*> deps = {};
                    v[root]->get_dependencies(true, deps);
                    std::set<int> idx;
                    idx.insert(root);
                    for (MapItem<RawCell*>* it2 = deps.next(NULL); it2; it2 = deps.next(it2))
                        idx.insert((int)(std::find(v.begin(), v.end(), it2->value) - v.begin()));
                    std::string s = "CLOSURE";
                    for (int x : idx) s += " " + std::to_string(x);
                    fputs(s.c_str(), o2);
                }, 60));
                out.count("clo");
            }
        }
        for (int f = 0; f < nsrc; f++) src[f].lib.free_all();
        cl.free_all();
    }
    out.close();
    return 0;
}
