// C02 harness: OASIS save/load round trip under every writer option, decided on the implementation by
// gdstk's own reader.  No model is involved: every case yields one P line.
//
// case kind "oas", payload "<layout-seed> <flags hex> <level> <tolgrid> <readunit 0|1> <defects 0|1>":
//   layout   = oasl::Gen(Rng(layout-seed)).layout()  (abstract layout on the integer grid)
//   flags    = OASIS_CONFIG_* word (8 bits), level = deflate level, tolgrid = circle tolerance in grid steps (0 = off)
// Everything that calls write_oas / read_oas / oas_validate runs in a forked child: a crash becomes an outcome.
#include <zlib.h>
#include <fcntl.h>
#include "oas_layout.hpp"

using namespace gdstk;
using namespace oasl;

static std::string g_outdir;

// ---------------------------------------------------------------- child runner that keeps partial output
static std::string run_child(std::function<void(FILE*)> f, std::string& status, unsigned seconds = 60) {
    int fd[2];
    status = "ok";
    if (pipe(fd) != 0) {
        status = "PIPEFAIL";
        return "";
    }
    fflush(NULL);
    pid_t pid = fork();
    if (pid == 0) {
        ::close(fd[0]);
        alarm(seconds);
        FILE* o = fdopen(fd[1], "w");
        setvbuf(o, NULL, _IOLBF, 0);
        f(o);
        fflush(o);
        VERIF_COV_DUMP();
        _exit(0);
    }
    ::close(fd[1]);
    std::string res;
    char buf[4096];
    ssize_t r;
    while ((r = read(fd[0], buf, sizeof buf)) > 0) res.append(buf, (size_t)r);
    ::close(fd[0]);
    int st = 0;
    waitpid(pid, &st, 0);
    if (WIFSIGNALED(st)) {
        int sg = WTERMSIG(st);
        char b[32];
        if (sg == SIGALRM) snprintf(b, sizeof b, "HANG");
        else snprintf(b, sizeof b, "CRASH(%d)", sg);
        status = b;
    } else if (WIFEXITED(st) && WEXITSTATUS(st) != 0) {
        char b[32];
        snprintf(b, sizeof b, "CRASH(exit%d)", WEXITSTATUS(st));
        status = b;
    }
    return res;
}

static std::vector<uint8_t> slurp(const std::string& path) {
    std::vector<uint8_t> v;
    FILE* f = fopen(path.c_str(), "rb");
    if (!f) return v;
    uint8_t buf[65536];
    size_t r;
    while ((r = fread(buf, 1, sizeof buf, f)) > 0) v.insert(v.end(), buf, buf + r);
    fclose(f);
    return v;
}
static void spit(const std::string& path, const std::vector<uint8_t>& v) {
    FILE* f = fopen(path.c_str(), "wb");
    if (!f) return;
    fwrite(v.data(), 1, v.size(), f);
    fclose(f);
}

// F1 input class: a remove_property(list, name, true) call site of write_oas meets a non-empty list
// whose every entry has that name.  The call sequence of write_oas is replayed on the property names.
static bool all_match(const std::vector<std::string>& l, const std::string& n) {
    if (l.empty()) return false;
    for (auto& s : l)
        if (s != n) return false;
    return true;
}
static std::vector<std::string> names_of(const Property* p) {
    std::vector<std::string> v;
    for (; p; p = p->next) v.push_back(p->name ? p->name : "");
    return v;
}
static void remove_all(std::vector<std::string>& l, const std::string& n) {
    l.erase(std::remove(l.begin(), l.end(), n), l.end());
}
static bool f1_applies(const Library& lib, unsigned flags) {
    std::vector<std::string> l = names_of(lib.properties);
    if (flags & OASIS_CONFIG_PROPERTY_TOP_LEVEL) {
        if (all_match(l, "S_TOP_CELL")) return true;
        remove_all(l, "S_TOP_CELL");
        Array<Cell*> tc = {};
        Array<RawCell*> tr = {};
        lib.top_level(tc, tr);
        for (uint64_t i = 0; i < tc.count; i++) l.insert(l.begin(), "S_TOP_CELL");
        tc.clear();
        tr.clear();
    }
    if (flags & OASIS_CONFIG_PROPERTY_BOUNDING_BOX) {
        if (all_match(l, "S_BOUNDING_BOXES_AVAILABLE")) return true;
        remove_all(l, "S_BOUNDING_BOXES_AVAILABLE");
        l.insert(l.begin(), "S_BOUNDING_BOXES_AVAILABLE");
    }
    if (flags & OASIS_CONFIG_PROPERTY_MAX_COUNTS) {
        const char* ns[] = {"S_MAX_SIGNED_INTEGER_WIDTH", "S_MAX_UNSIGNED_INTEGER_WIDTH", "S_MAX_STRING_LENGTH",
                            "S_POLYGON_MAX_VERTICES", "S_PATH_MAX_VERTICES"};
        for (auto n : ns) {
            if (all_match(l, n)) return true;
            remove_all(l, n);
            l.insert(l.begin(), n);
        }
    }
    for (uint64_t i = 0; i < lib.cell_array.count; i++) {
        std::vector<std::string> c = names_of(lib.cell_array[i]->properties);
        if (flags & OASIS_CONFIG_PROPERTY_BOUNDING_BOX) {
            if (all_match(c, "S_BOUNDING_BOX")) return true;
            remove_all(c, "S_BOUNDING_BOX");
            c.insert(c.begin(), "S_BOUNDING_BOX");
        }
        if (flags & OASIS_CONFIG_PROPERTY_CELL_OFFSET) {
            if (all_match(c, "S_CELL_OFFSET")) return true;
            remove_all(c, "S_CELL_OFFSET");
            c.insert(c.begin(), "S_CELL_OFFSET");
        }
    }
    return false;
}

// multiset difference of two sorted-or-not line lists
static void multiset_diff(const std::vector<std::string>& a, const std::vector<std::string>& b, std::vector<size_t>& only_a,
                          std::vector<size_t>& only_b) {
    std::multimap<std::string, size_t> mb;
    for (size_t i = 0; i < b.size(); i++) mb.insert({b[i], i});
    std::vector<bool> used(b.size(), false);
    for (size_t i = 0; i < a.size(); i++) {
        auto it = mb.find(a[i]);
        if (it == mb.end()) only_a.push_back(i);
        else {
            used[it->second] = true;
            mb.erase(it);
        }
    }
    for (size_t i = 0; i < b.size(); i++)
        if (!used[i]) only_b.push_back(i);
}

struct Verdict {
    std::set<std::string> keys;      // known-defect input classes that explain every difference seen
    std::vector<std::string> fails;  // unexplained differences
    std::vector<std::string> notes;
};

// compare expectation (with candidate defect classes) against an actual dump
static void compare_dumps(const Dump& expect, const Dump& actual, const std::string& what, Verdict& v) {
    std::vector<std::string> e = expect.texts(), a = actual.texts();
    std::vector<size_t> oe, oa;
    multiset_diff(e, a, oe, oa);
    std::vector<bool> a_used(oa.size(), false);
    for (size_t ie : oe) {
        const Line& le = expect.lines[ie];
        bool explained = false;
        if (!le.cand.empty()) {
            std::vector<int> secs;
            for (auto& c : le.cand) secs.push_back(c.second);
            std::string me = mask_sections(le.text, secs);
            for (size_t k = 0; k < oa.size() && !explained; k++) {
                if (a_used[k]) continue;
                if (mask_sections(a[oa[k]], secs) == me) {
                    a_used[k] = true;
                    explained = true;
                    std::vector<std::string> se = split_sections(le.text), sa = split_sections(a[oa[k]]);
                    for (auto& c : le.cand)
                        if ((size_t)c.second < se.size() && (size_t)c.second < sa.size() && se[c.second] != sa[c.second])
                            v.keys.insert(c.first);
                }
            }
        }
        if (!explained)
            for (auto& c : le.cand)
                if (c.second == -1) {  // this defect class can make the whole element disappear
                    explained = true;
                    v.keys.insert(c.first);
                }
        if (!explained) {
            v.fails.push_back(what + ": expected line missing: " + le.text);
            if (getenv("C02_TRACE")) {
                for (size_t k = 0; k < oa.size(); k++)
                    if (!a_used[k]) v.fails.back() += " ## unmatched actual: " + a[oa[k]];
            }
        }
    }
    for (size_t k = 0; k < oa.size(); k++)
        if (!a_used[k]) v.fails.push_back(what + ": unexpected line: " + a[oa[k]]);
    if (v.fails.size() >= 2 && oe.size() == 1 && oa.size() == 1)
        v.fails[v.fails.size() - 2] = what + ": line differs: expected " + e[oe[0]] + " got " + a[oa[0]];
}

// ---- circle detection.  With circle_tolerance > 0 the writer may replace ANY polygon by a CIRCLE record; the
// re-loaded polygon must then lie within the stated tolerances of the original: every vertex and edge midpoint of
// either boundary within T of the other boundary, T = 1.25 * circle tolerance (the chord bound of is_circle allows a
// sagitta slightly above the tolerance) + 1 grid step (read tolerance) + 1.3 grid steps (rounding of centre and radius).
static double seg_dist(double px, double py, double ax, double ay, double bx, double by) {
    double dx = bx - ax, dy = by - ay;
    double l2 = dx * dx + dy * dy;
    double t = l2 > 0 ? ((px - ax) * dx + (py - ay) * dy) / l2 : 0;
    if (t < 0) t = 0;
    if (t > 1) t = 1;
    return hypot(px - (ax + t * dx), py - (ay + t * dy));
}
typedef std::vector<std::pair<double, double>> DPts;
static DPts scaled_points(const Polygon* p, double scaling) {
    DPts v;
    for (uint64_t i = 0; i < p->point_array.count; i++) v.push_back({p->point_array[i].x * scaling, p->point_array[i].y * scaling});
    return v;
}
static double one_sided(const DPts& a, const DPts& b) {
    double worst = 0;
    size_t na = a.size(), nb = b.size();
    for (size_t i = 0; i < na; i++) {
        std::pair<double, double> q[2] = {a[i], {0.5 * (a[i].first + a[(i + 1) % na].first), 0.5 * (a[i].second + a[(i + 1) % na].second)}};
        for (auto& pt : q) {
            double best = 1e300;
            for (size_t k = 0; k < nb; k++) {
                double d = seg_dist(pt.first, pt.second, b[k].first, b[k].second, b[(k + 1) % nb].first, b[(k + 1) % nb].second);
                if (d < best) best = d;
            }
            if (best > worst) worst = best;
        }
    }
    return worst;
}
static bool circle_like(const DPts& a) {
    if (a.size() < 5) return false;
    double cx = 0, cy = 0;
    for (auto& p : a) { cx += p.first; cy += p.second; }
    cx /= a.size();
    cy /= a.size();
    double rmin = 1e300, rmax = 0;
    for (auto& p : a) {
        double r = hypot(p.first - cx, p.second - cy);
        rmin = std::min(rmin, r);
        rmax = std::max(rmax, r);
    }
    return rmax - rmin < 1.5;
}
// pairs the polygons of `ref` and `got` by cell name and index (the writer and the reader keep the order)
static void tolerance_substitution(const Library& ref, const Library& got, int64_t tolgrid, PolySubst& subst, Verdict& v, long& detected,
                                   const std::string& what) {
    double sr = ref.unit / ref.precision, sg = got.unit / got.precision;
    for (uint64_t ci = 0; ci < ref.cell_array.count; ci++) {
        Cell* rc = ref.cell_array[ci];
        Cell* c = NULL;
        for (uint64_t i = 0; i < got.cell_array.count; i++)
            if (got.cell_array[i]->name && strcmp(rc->name, got.cell_array[i]->name) == 0) c = got.cell_array[i];
        // reference polygons: the cell's polygons followed by the outlines of its non-simple paths (the order of the file)
        std::vector<Polygon*> refp, owned;
        for (uint64_t i = 0; i < rc->polygon_array.count; i++) refp.push_back(rc->polygon_array[i]);
        for (uint64_t i = 0; i < rc->flexpath_array.count; i++) {
            if (rc->flexpath_array[i]->simple_path) continue;
            Array<Polygon*> outl = {};
            rc->flexpath_array[i]->to_polygons(false, 0, outl);
            for (uint64_t k = 0; k < outl.count; k++) {
                refp.push_back(outl[k]);
                owned.push_back(outl[k]);
            }
            outl.clear();
        }
        for (uint64_t i = 0; i < rc->robustpath_array.count; i++) {
            if (rc->robustpath_array[i]->simple_path) continue;
            Array<Polygon*> outl = {};
            rc->robustpath_array[i]->to_polygons(false, 0, outl);
            for (uint64_t k = 0; k < outl.count; k++) {
                refp.push_back(outl[k]);
                owned.push_back(outl[k]);
            }
            outl.clear();
        }
        struct Cleanup {
            std::vector<Polygon*>& v;
            ~Cleanup() {
                for (Polygon* q : v) {
                    q->clear();
                    free_allocation(q);
                }
            }
        } cleanup{owned};
        if (!c || c->polygon_array.count != refp.size()) continue;
        for (uint64_t i = 0; i < refp.size(); i++) {
            Polygon* po = refp[i];
            Polygon* pg = c->polygon_array[i];
            std::vector<P2> eo = canon_cycle(grid_points(po->point_array, sr));
            if (eo == canon_cycle(grid_points(pg->point_array, sg))) continue;
            if (tolgrid <= 0) continue;  // stays a mismatch
            DPts a = scaled_points(po, sr), bb = scaled_points(pg, sg);
            if (!circle_like(bb)) continue;  // not a re-created circle: stays a mismatch
            double T = 1.25 * (double)tolgrid + 2.3;
            double h = std::max(one_sided(a, bb), one_sided(bb, a));
            subst[{rc->name, (size_t)i}] = pts_text(eo);
            if (h <= T) detected++;
            else {
                char buf[200];
                snprintf(buf, sizeof buf, "%s: cell %s polygon %llu (%llu vertices) re-loads as a circle %.2f grid steps away, tolerance %lld",
                         what.c_str(), rc->name, (unsigned long long)i, (unsigned long long)po->point_array.count, h, (long long)tolgrid);
                double far = 0, xmin = 1e300, xmax = -1e300, ymin = 1e300, ymax = -1e300;
                for (auto& q : a) {
                    far = std::max(far, std::max(fabs(q.first), fabs(q.second)));
                    xmin = std::min(xmin, q.first); xmax = std::max(xmax, q.first);
                    ymin = std::min(ymin, q.second); ymax = std::max(ymax, q.second);
                }
                double diag_user = hypot(xmax - xmin, ymax - ymin) / sr, tol_user = (double)tolgrid / sr;
                // distance of the original VERTICES alone from the re-created circle: is_circle tests the vertices (radius) and the
                // edge lengths against a bound laxer than a chord of sagitta `tolerance`, never the edges themselves
                double hv = 0;
                for (auto& q : a) {
                    double best = 1e300;
                    for (size_t k = 0; k < bb.size(); k++)
                        best = std::min(best, seg_dist(q.first, q.second, bb[k].first, bb[k].second, bb[(k + 1) % bb.size()].first, bb[(k + 1) % bb.size()].second));
                    hv = std::max(hv, best);
                }
                // the recorded finding is about polygons whose EDGES stray although every edge is short enough for the neighbour
                // test of is_circle (tolerance + 2 sqrt(2 tol (r - tol))); an edge longer than that bound must have been rejected
                double ccx = 0, ccy = 0, rr = 0, maxedge = 0;
                for (auto& q : bb) { ccx += q.first; ccy += q.second; }
                ccx /= (double)bb.size(); ccy /= (double)bb.size();
                for (auto& q : bb) rr = std::max(rr, hypot(q.first - ccx, q.second - ccy));
                for (size_t k = 0; k < a.size(); k++)
                    maxedge = std::max(maxedge, hypot(a[k].first - a[(k + 1) % a.size()].first, a[k].second - a[(k + 1) % a.size()].second));
                double tg = (double)tolgrid;
                double nbound = tg + 2 * sqrt(2 * tg * std::max(0.0, rr - tg));
                if (maxedge > 1.1 * nbound + 2) {
                    char b2[320];
                    snprintf(b2, sizeof b2, "%s; its longest edge (%.1f grid steps) exceeds the neighbour bound of circle detection (%.1f)", buf, maxedge, nbound);
                    v.fails.push_back(b2);
                } else if (hv <= T && far <= 268435456.0) {
                    v.keys.insert("is_circle:edges-unchecked");
                    v.notes.push_back(buf);
                } else if (far > 268435456.0) {
                    // the least-squares fit of is_circle works on absolute coordinates: beyond ~2^28 grid steps from the
                    // origin the cancellation error of |p|^2 - |ref|^2 exceeds the grid
                    v.keys.insert("is_circle:far-from-origin");
                    v.notes.push_back(buf);
                } else if (diag_user < 1.0) {
                    // is_circle tests fabs(|p-c|^2 - r^2) >= tolerance: squared lengths against a length.  For shapes
                    // smaller than one user unit |d^2 - r^2| = |d - r| (d + r) < |d - r|: the test is laxer than the
                    // distance it stands for (vacuous once the shape is smaller than sqrt(tolerance)) and any shape with
                    // short enough edges passes
                    (void)tol_user;
                    v.keys.insert("is_circle:radial-test-units");
                    v.notes.push_back(buf);
                } else {
                    v.fails.push_back(buf);
                }
            }
        }
    }
}
// expectation: polygons the harness made with ellipse() are expected as their vertices rounded to the grid
static Dump expected_with_circles(const ALib& L, const Built& b) {
    ALib L2 = L;
    double sc = L.scaling();
    for (size_t ci = 0; ci < L2.cells.size(); ci++)
        for (size_t i = 0; i < L2.cells[ci].polys.size(); i++) {
            APoly& ap = L2.cells[ci].polys[i];
            if (!ap.circle) continue;
            ap.pts = grid_points(b.lib.cell_array[ci]->polygon_array[i]->point_array, sc);
            ap.circle = false;
        }
    // non-simple RobustPaths: the expected polygons are the outlines gdstk computes, rounded to the grid
    for (size_t ci = 0; ci < L2.cells.size(); ci++) {
        std::vector<APath> kept;
        size_t ri = 0;
        for (auto& ap : L2.cells[ci].paths) {
            if (!ap.robust) { kept.push_back(ap); continue; }
            RobustPath* rp = b.lib.cell_array[ci]->robustpath_array[ri++];
            if (!ap.outline) { kept.push_back(ap); continue; }
            Array<Polygon*> outl = {};
            rp->to_polygons(false, 0, outl);
            for (uint64_t k = 0; k < outl.count; k++) {
                APoly q;
                q.layer = get_layer(outl[k]->tag);
                q.type = get_type(outl[k]->tag);
                q.pts = grid_points(outl[k]->point_array, sc);
                q.rep = ap.rep;
                q.props = ap.props;
                q.shape = "robust-outline";
                L2.cells[ci].polys.push_back(q);
                outl[k]->clear();
                free_allocation(outl[k]);
            }
            outl.clear();
        }
        L2.cells[ci].paths = kept;
    }
    return expected_dump(L2);
}

static const char* ec_name(ErrorCode e) {
    switch (e) {
        case ErrorCode::NoError: return "NoError";
        case ErrorCode::MissingReference: return "MissingReference";
        case ErrorCode::ChecksumError: return "ChecksumError";
        case ErrorCode::InvalidFile: return "InvalidFile";
        case ErrorCode::InputFileError: return "InputFileError";
        case ErrorCode::Overflow: return "Overflow";
        case ErrorCode::ZlibError: return "ZlibError";
        case ErrorCode::UnsupportedRecord: return "UnsupportedRecord";
        case ErrorCode::EmptyPath: return "EmptyPath";
        default: return "other";
    }
}

struct CaseParams {
    uint64_t lseed;
    unsigned flags;
    unsigned level;
    int64_t tolgrid;
    int readunit;
    int defects;
};

static void emit(FILE* o, const Verdict& v) {
    for (auto& k : v.keys) fprintf(o, "KEY %s\n", k.c_str());
    for (size_t i = 0; i < v.notes.size() && i < 2; i++) fprintf(o, "NOTE %s\n", v.notes[i].c_str());
    for (size_t i = 0; i < v.fails.size() && i < 4; i++) fprintf(o, "FAIL %s\n", v.fails[i].c_str());
}

// validation signature checks on a written file
static void check_signature(const std::string& file, unsigned flags, uint64_t flip_seed, Verdict& v) {
    std::vector<uint8_t> bytes = slurp(file);
    size_t n = bytes.size();
    if (n < 20) {
        v.fails.push_back("written file too short");
        return;
    }
    unsigned want_scheme = (flags & OASIS_CONFIG_INCLUDE_CRC32) ? 1 : (flags & OASIS_CONFIG_INCLUDE_CHECKSUM32) ? 2 : 0;
    unsigned scheme = want_scheme ? bytes[n - 5] : bytes[n - 1];
    if (scheme != want_scheme) {
        v.fails.push_back("validation scheme byte " + std::to_string(scheme) + " for flags " + hex_u64(flags));
        return;
    }
    uint32_t sig = 0xdeadbeef;
    ErrorCode ec = ErrorCode::NoError;
    bool okv = oas_validate(file.c_str(), &sig, &ec);
    if (!want_scheme) {
        if (!okv || sig != 0 || ec != ErrorCode::ChecksumError) v.fails.push_back("oas_validate on a file without signature");
        return;
    }
    uint32_t stored = (uint32_t)bytes[n - 4] | ((uint32_t)bytes[n - 3] << 8) | ((uint32_t)bytes[n - 2] << 16) | ((uint32_t)bytes[n - 1] << 24);
    // independent computation over every byte up to and including the scheme byte
    uint32_t mine;
    if (want_scheme == 1) mine = (uint32_t)crc32(crc32(0, NULL, 0), bytes.data(), (unsigned)(n - 4));
    else {
        uint64_t s = 0;
        for (size_t i = 0; i + 4 < n; i++) s += bytes[i];
        mine = (uint32_t)s;
    }
    if (mine != stored) v.fails.push_back("stored signature " + hex_u64(stored) + " is not the signature of the file bytes " + hex_u64(mine));
    if (!okv) v.fails.push_back("oas_validate rejects the file gdstk wrote");
    if (sig != stored) v.fails.push_back("oas_validate reports signature " + hex_u64(sig) + ", stored " + hex_u64(stored));
    // flip one byte anywhere before the scheme byte
    Rng fg(flip_seed);
    size_t pos = (size_t)fg.below(n - 5);
    std::vector<uint8_t> bad = bytes;
    bad[pos] ^= (uint8_t)(1u << fg.below(8));
    std::string bf = file + ".flip";
    spit(bf, bad);
    if (oas_validate(bf.c_str(), NULL, NULL)) v.fails.push_back("oas_validate accepts the file after flipping byte " + std::to_string(pos));
    unlink(bf.c_str());
}

// a later cycle against the first re-load: nothing more may change (circles again within tolerance)
static void later_cycle(const Library& l1, const Dump& dump1, const std::set<std::string>& unit_steps, const Library& ln, int64_t tolgrid, const std::string& what, Verdict& v2) {
    Verdict t;
    PolySubst subst;
    long n = 0;
    tolerance_substitution(l1, ln, tolgrid, subst, t, n, what);
    Dump e = dump1;  // taken before l1 was saved again: FlexPath::to_oas edits the spine it writes
    // input class of the grid-step finding (sections: 2 = points; -1 = the element may vanish altogether)
    for (auto& l : e.lines)
        if (unit_steps.count(l.text)) {
            l.cand.push_back({"FlexPath::remove_overlapping_points:grid-step-segment", 2});
            l.cand.push_back({"FlexPath::remove_overlapping_points:grid-step-segment", -1});
        }
    compare_dumps(e, library_dump(ln, &subst), what, t);
    if (!t.fails.empty()) v2.fails.push_back(t.fails[0]);
    for (auto& k : t.keys) v2.keys.insert(k);
    for (auto& k : t.notes) v2.notes.push_back(k);
}

static void child_body(FILE* o, const ALib& L, const CaseParams& cp) {
    set_error_logger(NULL);
    if (!getenv("C02_VERBOSE")) {  // qhull (bounding boxes) writes precision warnings to stderr
        int dn = open("/dev/null", O_WRONLY);
        if (dn >= 0) dup2(dn, 2);
    }
    Built b;
    build_library(L, b);
    double tol_user = cp.tolgrid > 0 ? (double)cp.tolgrid / L.scaling() : 0.0;
    double read_unit = cp.readunit ? L.unit : 0.0;
    std::string f1 = g_outdir + "/x.oas", f1b = g_outdir + "/x1b.oas", f2 = g_outdir + "/x2.oas", f3 = g_outdir + "/x3.oas";

    // the builder must realise the abstract layout (guards the harness itself)
    Dump expect = expected_with_circles(L, b);
    {
        Verdict hv;
        Dump built = library_dump(b.lib);
        Dump plain = expect;
        for (auto& l : plain.lines) l.cand.clear();
        compare_dumps(plain, built, "builder", hv);
        if (!hv.fails.empty()) {
            fprintf(o, "HARNESS %s\n", hv.fails[0].c_str());
            return;
        }
    }

    Verdict v;
    // ---- first save of the original
    fprintf(o, "STEP save1 f1=%d\n", f1_applies(b.lib, cp.flags) ? 1 : 0);
    ErrorCode we = b.lib.write_oas(f1.c_str(), tol_user, (uint8_t)cp.level, (uint16_t)cp.flags);
    bool has_dangling = false;
    for (auto& c : L.cells)
        for (auto& r : c.refs)
            if (r.how >= 2) has_dangling = true;
    if (we != ErrorCode::NoError) v.fails.push_back(std::string("write_oas returned ") + ec_name(we));
    fprintf(o, "STEP validate1\n");
    check_signature(f1, cp.flags, cp.lseed * 31 + cp.flags, v);
    fprintf(o, "STEP load1\n");
    ErrorCode re = ErrorCode::NoError;
    Library l1 = read_oas(f1.c_str(), read_unit, 0, &re);
    if (!(re == ErrorCode::NoError || (re == ErrorCode::MissingReference && has_dangling)))
        v.fails.push_back(std::string("read_oas returned ") + ec_name(re));
    // precision of the grid
    if (fabs(l1.precision / L.precision - 1) > 1e-12) v.fails.push_back("precision changed: " + hex_dbl(L.precision) + " -> " + hex_dbl(l1.precision));
    PolySubst subst;
    long detected = 0;
    tolerance_substitution(b.lib, l1, cp.tolgrid, subst, v, detected, "cycle1");
    compare_dumps(expect, library_dump(l1, &subst), "cycle1", v);
    fprintf(o, "STAT circles_detected %ld\n", detected);
    std::set<std::string> unit_steps;
    Dump dump1 = library_dump(l1, NULL, &unit_steps);
    emit(o, v);

    // ---- second save of the same (now mutated) original object
    Verdict v2;
    fprintf(o, "STEP save1b f1=%d\n", f1_applies(b.lib, cp.flags) ? 1 : 0);
    b.lib.write_oas(f1b.c_str(), tol_user, (uint8_t)cp.level, (uint16_t)cp.flags);
    fprintf(o, "STEP load1b\n");
    Library l1b = read_oas(f1b.c_str(), read_unit, 0, NULL);
    later_cycle(l1, dump1, unit_steps, l1b, cp.tolgrid, "second save of the same library", v2);
    // ---- cycles 2 and 3
    fprintf(o, "STEP save2 f1=%d\n", f1_applies(l1, cp.flags) ? 1 : 0);
    l1.write_oas(f2.c_str(), cp.tolgrid > 0 ? (double)cp.tolgrid / (l1.unit / l1.precision) : 0.0, (uint8_t)cp.level, (uint16_t)cp.flags);
    fprintf(o, "STEP load2\n");
    Library l2 = read_oas(f2.c_str(), read_unit, 0, NULL);
    later_cycle(l1, dump1, unit_steps, l2, cp.tolgrid, "cycle2 vs cycle1", v2);
    fprintf(o, "STEP save3 f1=%d\n", f1_applies(l2, cp.flags) ? 1 : 0);
    l2.write_oas(f3.c_str(), cp.tolgrid > 0 ? (double)cp.tolgrid / (l2.unit / l2.precision) : 0.0, (uint8_t)cp.level, (uint16_t)cp.flags);
    fprintf(o, "STEP load3\n");
    Library l3 = read_oas(f3.c_str(), read_unit, 0, NULL);
    later_cycle(l1, dump1, unit_steps, l3, cp.tolgrid, "cycle3 vs cycle1", v2);
    // later cycles of a layout that already showed a known defect are attributed to that defect
    if (!v2.fails.empty() && !v.keys.empty() && v.fails.empty()) {
        fprintf(o, "NOTE later cycles differ after known defect: %s\n", v2.fails[0].c_str());
        v2.fails.clear();
    }
    emit(o, v2);
    fprintf(o, "DONE\n");
}

static void run_case(Out& out, const std::string& kind, const std::string& payload) {
    std::string id = out.add(kind, payload);
    CaseParams cp;
    unsigned long long ls = 0;
    unsigned fl = 0, lv = 0;
    long long tg = 0;
    int ru = 0, df = 1;
    sscanf(payload.c_str(), "%llu %x %u %lld %d %d", &ls, &fl, &lv, &tg, &ru, &df);
    cp.lseed = ls;
    cp.flags = fl;
    cp.level = lv;
    cp.tolgrid = tg;
    cp.readunit = ru;
    cp.defects = df;
    Rng lg(cp.lseed);
    Gen gen(lg, cp.defects != 0);
    ALib L = gen.layout();
    // statistics of the input distribution
    out.count("level:" + std::to_string(cp.level));
    out.count(cp.tolgrid > 0 ? "circle_tolerance:on" : "circle_tolerance:off");
    for (auto& c : L.cells) {
        for (auto& p : c.polys) {
            out.count("poly:" + p.shape);
            if (p.rep.kind) out.count("rep:kind" + std::to_string(p.rep.kind));
        }
        for (auto& p : c.paths) {
            out.count(p.robust ? "path:robust" : "path:flex");
            for (auto& e : p.els) out.count("path:end" + std::to_string(e.end));
        }
        out.count("labels", (long)c.labels.size());
        for (auto& r : c.refs) {
            out.count("ref:how" + std::to_string(r.how));
            out.count(r.quarter && r.mag == 1.0 ? "ref:placement" : "ref:placement_transform");
            if (r.rep.kind) out.count("rep:kind" + std::to_string(r.rep.kind));
        }
    }

    std::string status;
    std::string res = run_child([&](FILE* o) { child_body(o, L, cp); }, status, 30);
    if (getenv("C02_VERBOSE")) fprintf(stderr, "---- case %s [%s] status %s\n%s", id.c_str(), payload.c_str(), status.c_str(), res.c_str());
    // parse
    std::string last_step;
    bool last_f1 = false, done = false;
    std::set<std::string> keys;
    std::vector<std::string> fails;
    std::string harness_bug, note;
    size_t p = 0;
    while (p < res.size()) {
        size_t q = res.find('\n', p);
        if (q == std::string::npos) q = res.size();
        std::string line = res.substr(p, q - p);
        p = q + 1;
        if (line.compare(0, 5, "STEP ") == 0) {
            last_step = line.substr(5);
            last_f1 = line.find("f1=1") != std::string::npos;
        } else if (line.compare(0, 4, "KEY ") == 0) keys.insert(line.substr(4));
        else if (line.compare(0, 5, "FAIL ") == 0) fails.push_back(line.substr(5));
        else if (line.compare(0, 8, "HARNESS ") == 0) harness_bug = line.substr(8);
        else if (line.compare(0, 5, "NOTE ") == 0 && note.empty()) note = line.substr(5);
        else if (line.compare(0, 5, "STAT ") == 0) {
            char name[64];
            long val = 0;
            if (sscanf(line.c_str() + 5, "%63s %ld", name, &val) == 2) out.count(name, val);
        } else if (line == "DONE") done = true;
    }
    std::string verdict;
    if (!harness_bug.empty()) verdict = "FAIL harness-self-check " + harness_bug;
    else if (!fails.empty()) verdict = "FAIL oas-roundtrip " + fails[0];
    else if (!done) {
        if (last_f1 && status.compare(0, 5, "CRASH") == 0)
            verdict = "FAIL write_oas:second-save-crash " + status + " in step " + last_step +
                      " (remove_property(list, name, true) on a list whose every entry matches)";
        else verdict = "FAIL oas-roundtrip " + status + " in step " + last_step;
    } else if (!keys.empty()) {
        // one P line per case: report the first key, name the others
        std::string all;
        for (auto& k : keys) all += (all.empty() ? "" : ",") + k;
        verdict = "FAIL " + *keys.begin() + " defect class hit (" + all + ")" + (note.empty() ? "" : ": " + note);
    } else verdict = "ok";
    if (verdict != "ok") {
        out.count("verdict:" + verdict.substr(5, verdict.find(' ', 5) - 5));
        // keep the failing file of unexplained failures (at most 50)
        static int kept = 0;
        if (verdict.compare(0, 19, "FAIL oas-roundtrip ") == 0 && kept++ < 50) {
            std::vector<uint8_t> f = slurp(g_outdir + "/x.oas");
            spit(g_outdir + "/fail_" + id + ".oas", f);
        }
    } else out.count("verdict:ok");
    out.P(id, verdict);
}

int main(int argc, char** argv) {
    if (argc < 4) {
        fprintf(stderr, "usage: c02 seed tier outdir [corpus] [replay]\n");
        return 2;
    }
    uint64_t seed = strtoull(argv[1], NULL, 10);
    bool thorough = strcmp(argv[2], "thorough") == 0;
    g_outdir = argv[3];
    set_error_logger(NULL);
    Out out;
    out.open(argv[3]);
    char buf0[400];
    if (argc > 5) {
        std::string k, p;
        if (load_replay(argv[5], k, p)) run_case(out, k, p);
        out.close();
        return 0;
    }
    for (auto& c : load_corpus(argc > 4 ? argv[4] : NULL)) run_case(out, c.first, c.second);
    // explicit repetitions OFF the precision grid (the layout generator is on the grid): every copy must re-load at its position
    // rounded to the grid - the writer has to round positions, not successive differences, or the errors add up
    for (int kind = 0; kind < 3; kind++)
        for (int flags = 0; flags < 2; flags++) {
            static const double STEPS[4] = {0.0004, 0.0026, 0.00047, 0.00123};  // multiples never land on a half-way point
            double sx = STEPS[(kind + flags) % 4], sy = STEPS[(kind + flags + 1) % 4];
            int n = 6 + 2 * kind + flags;
            Library lib = {};
            lib.init("L", 1e-6, 1e-9);
            Cell* c = (Cell*)allocate_clear(sizeof(Cell));
            c->name = copy_string("A", NULL);
            lib.cell_array.append(c);
            Polygon* p = (Polygon*)allocate_clear(sizeof(Polygon));
            p->point_array.append(Vec2{0, 0});
            p->point_array.append(Vec2{10, 0});
            p->point_array.append(Vec2{3, 7});
            p->tag = make_tag(1, 2);
            if (kind == 0) {
                p->repetition.type = RepetitionType::Explicit;
                for (int i = 1; i <= n; i++) p->repetition.offsets.append(Vec2{sx * i, sy * i});
            } else {
                p->repetition.type = kind == 1 ? RepetitionType::ExplicitX : RepetitionType::ExplicitY;
                for (int i = 1; i <= n; i++) p->repetition.coords.append(sx * i);
            }
            c->polygon_array.append(p);
            std::string path = g_outdir + "/probe.oas";
            lib.write_oas(path.c_str(), 0, 0, flags ? OASIS_CONFIG_DETECT_RECTANGLES : 0);
            ErrorCode e = ErrorCode::NoError;
            Library b = read_oas(path.c_str(), 0, 1e-2, &e);
            std::string verdict = "ok";
            if (e != ErrorCode::NoError || b.cell_array.count != 1 || b.cell_array[0]->polygon_array.count != 1) verdict = "FAIL oas-roundtrip the probe file does not load back";
            else {
                Array<Vec2> o = {}, w = {};
                b.cell_array[0]->polygon_array[0]->repetition.get_offsets(o);
                p->repetition.get_offsets(w);
                if (o.count != w.count) verdict = "FAIL oasis_write_repetition:explicit-rounded-differences number of copies changed";
                for (uint64_t i = 0; i < o.count && verdict == "ok"; i++)
                    if (llround(o[i].x * 1e3) != llround(w[i].x * 1e3) || llround(o[i].y * 1e3) != llround(w[i].y * 1e3)) {
                        snprintf(buf0, sizeof buf0, "copy %d of an off-grid explicit repetition re-loads at (%lld, %lld) grid steps, its rounded position is (%lld, %lld)", (int)i,
                                 (long long)llround(o[i].x * 1e3), (long long)llround(o[i].y * 1e3), (long long)llround(w[i].x * 1e3), (long long)llround(w[i].y * 1e3));
                        verdict = std::string("FAIL oasis_write_repetition:explicit-rounded-differences ") + buf0;
                    }
                o.clear();
                w.clear();
            }
            std::string id = out.add("probe", "explicit-offgrid " + std::to_string(kind) + " " + std::to_string(flags));
            out.I(id, "-");
            out.P(id, verdict);
            b.free_all();
            lib.free_all();
        }
    // common.hpp's Rng(seed) starts at seed * golden-ratio increment: the streams of seeds s and s+1 are the same
    // sequence shifted by one draw.  Re-seed from the first (mixed) output so that different seeds give unrelated runs.
    Rng g0(seed);
    Rng g(g0.next());
    char buf[160];
    if (!thorough) {
        // 120 layouts x 10 option sets; the flag word walks through all 256 combinations
        unsigned counter = (unsigned)g.below(256);
        for (int li = 0; li < 120; li++) {
            uint64_t ls = g.next() >> 1;
            int defects = li % 3 == 0 ? 1 : 0;  // two thirds of the layouts are free of the known-defect input classes
            for (int oi = 0; oi < 10; oi++) {
                unsigned flags = (counter++ * 37u) & 0xFFu;
                unsigned level = (unsigned)g.below(10);
                long long tol = g.coin() ? 0 : 1 + (long long)g.below(5);
                snprintf(buf, sizeof buf, "%llu %x %u %lld %d %d", (unsigned long long)ls, flags, level, tol, (int)g.below(2), defects);
                run_case(out, "oas", buf);
            }
        }
    } else {
        // all 256 flag words x levels {0,1,6,9} on 40 layouts, circle tolerance alternating
        static const unsigned levels[] = {0, 1, 6, 9};
        for (int li = 0; li < 40; li++) {
            uint64_t ls = g.next() >> 1;
            int defects = li % 4 == 0 ? 1 : 0;
            for (unsigned flags = 0; flags < 256; flags++)
                for (unsigned lv : levels) {
                    long long tol = ((flags + lv + li) & 1) ? 0 : 1 + (long long)g.below(5);
                    snprintf(buf, sizeof buf, "%llu %x %u %lld %d %d", (unsigned long long)ls, flags, lv, tol, (int)g.below(2), defects);
                    run_case(out, "oas", buf);
                }
        }
    }
    out.close();
    return 0;
}
