// C07 harness: FlexPath construction bookkeeping, outline region, centre line and PATH records.
//
// One forked child (alarm) per generated path.  The child builds a FlexPath by a random sequence of
// construction calls and prints records that the parent turns into cases:
//   counts  : element / spine counts after every call (I) - the model replays the calls (M);
//             P-lines FAIL flexpath-counts / flexpath-fill-linear
//   region  : per element: to_polygons outline, the centre polyline computed here in long double
//             from the implementation's own spine / half-width / offset doubles, radii and sample
//             points, all on the 2^-30 grid; the extracted exact oracle answers S ok | bad i code,
//             the harness answers I ok
//   center  : FlexPath::element_center against the centre line computed here (F13)
//   gds/oas : the path saved as PATH record through Library::write_gds / write_oas, read back
//   fn      : per element: the same spine / widths / offsets with the user-callback styles EndType::Function,
//             JoinType::Function, BendType::Function (section "user-callback styles" below): the callbacks record their
//             arguments and what they return and reproduce a built-in style from their arguments alone; P-lines FAIL
//             flexpath-fn-end-args / -join-args / -bend-args (arguments against the geometry recomputed here in long double),
//             flexpath-fn-end-order / -join-splice / -bend-splice (every returned point in the outline, in the documented order,
//             on the side the call was made for), flexpath-fn-twin (outline against the outline of the built-in twin style);
//             for part of them a `region` case (payload g=<seed>:<index>:fn:<element>) puts the callback outline through the
//             extracted oracle with the expectations of the built-in twin
// Every random choice derives from (seed, path index): payloads start with g=<seed>:<index> and a
// replay regenerates exactly that path.
// Grid: doubles are multiplied by 2^30 (exact) and rounded to the nearest integer (error <= 2^-31 per coordinate,
// five orders of magnitude below the guard bands, which are multiples of the path tolerance >= 1e-3).
// Debug aid: C07_DUMP=1 prints spine / half widths / offsets of a replayed path to stderr.
#include <algorithm>
#include <cmath>
#include <gdstk/gdstk.hpp>
#include "common.hpp"

using namespace gdstk;
typedef long double ld;

static const double GRID = 1073741824.0;  // 2^30
static inline int64_t togrid(double x) { return (int64_t)llround(x * GRID); }
static inline int64_t togridl(ld x) { return (int64_t)llroundl(x * (ld)GRID); }

struct V {
    ld x, y;
};
static inline V operator+(V a, V b) { return V{a.x + b.x, a.y + b.y}; }
static inline V operator-(V a, V b) { return V{a.x - b.x, a.y - b.y}; }
static inline V operator*(V a, ld k) { return V{a.x * k, a.y * k}; }
static inline ld dotl(V a, V b) { return a.x * b.x + a.y * b.y; }
static inline ld crossl(V a, V b) { return a.x * b.y - a.y * b.x; }
static inline ld lenl(V a) { return sqrtl(dotl(a, a)); }
static inline V orthol(V a) { return V{-a.y, a.x}; }
static inline V unitl(V a) {
    ld l = lenl(a);
    return l > 0 ? a * (1 / l) : a;
}

// ------------------------------------------------------------------ child -> parent records
struct Emit {
    FILE* o;
    void K(const std::string& kind, const std::string& payload) { fprintf(o, "K\t%s\t%s\n", kind.c_str(), payload.c_str()); }
    void I(const std::string& s) { fprintf(o, "I\t%s\n", s.c_str()); }
    void P(const std::string& s) { fprintf(o, "P\t%s\n", s.c_str()); }
    void T(const std::string& s) { fprintf(o, "T\t%s\n", s.c_str()); }
    void Tn(const std::string& s, long n) {  // a statistics counter raised by n
        if (n > 0) fprintf(o, "T\t%s\t%ld\n", s.c_str(), n);
    }
};

// ------------------------------------------------------------------ path recipe
struct ElemCfg {
    double wA, oA, wB, oB;  // two (width, offset) states: A initial, B alternative target
    JoinType join;
    EndType end;
    Vec2 ext;
    BendType bend;
    double bend_radius;
};

static const char* WR[] = {"horizontal", "horizontal[]", "vertical", "vertical[]", "segment", "segment[]",
                           "cubic", "cubic_smooth", "quadratic", "quadratic_smooth", "quadratic_smooth[]",
                           "bezier", "interpolation", "arc", "turn", "parametric", "commands"};
enum { W_H, W_HA, W_V, W_VA, W_S, W_SA, W_CUBIC, W_CUBICS, W_QUAD, W_QUADS, W_QUADSA, W_BEZ, W_INTERP, W_ARC, W_TURN, W_PARAM, W_CMD };

struct Builder {
    FlexPath fp;
    std::vector<ElemCfg> el;
    uint64_t n;
    double tol;
    double Wmax;  // largest |offset| + half width over both states
    Rng* g;
    Emit* em;
    std::string counts_payload, counts_impl, desc;
    bool counts_fail = false, linear_fail = false;
    std::string fail_text;
    double heading = 0;
    int ncalls = 0;
    int family = 0;

    Vec2 cur() { return fp.spine.point_array[fp.spine.point_array.count - 1]; }
    void update_heading() {
        uint64_t c = fp.spine.point_array.count;
        if (c >= 2) {
            Vec2 d = fp.spine.point_array[c - 1] - fp.spine.point_array[c - 2];
            if (d.length_sq() > 0) heading = atan2(d.y, d.x);
        }
    }

    // choose the width / offset arguments of the next call: 0 = NULL, 1 = state A, 2 = state B
    struct WO {
        std::vector<double> w, o;
        const double* wp;
        const double* op;
        int ws, os;
    };
    WO pick_wo(bool allow) {
        WO r;
        r.ws = allow ? (int)g->below(3) : 0;
        r.os = allow ? (int)g->below(3) : 0;
        for (uint64_t e = 0; e < n; e++) {
            r.w.push_back(r.ws == 2 ? el[e].wB : el[e].wA);
            r.o.push_back(r.os == 2 ? el[e].oB : el[e].oA);
        }
        return r;
    }

    struct Before {
        uint64_t spine;
        std::vector<uint64_t> cnt;
        std::vector<Vec2> last;
    };
    Before before() {
        Before b;
        b.spine = fp.spine.point_array.count;
        for (uint64_t e = 0; e < n; e++) {
            b.cnt.push_back(fp.elements[e].half_width_and_offset.count);
            b.last.push_back(fp.elements[e].half_width_and_offset[fp.elements[e].half_width_and_offset.count - 1]);
        }
        return b;
    }
    // after a call: counts and linear fill
    // construction oracle: where the call must leave the spine, from its arguments (set by the caller before `after`)
    bool have_end = false;
    Vec2 want_end = {0, 0};
    std::string spine_fail;
    int spine_checked = 0;
    void expect_end(Vec2 p) { have_end = true; want_end = p; }
    void after(int wrapper, const Before& b, const WO& wo, bool passes) {
        if (have_end) {
            have_end = false;
            spine_checked++;
            Vec2 got = cur();
            double sc2 = std::max(1.0, std::max(fabs(want_end.x), fabs(want_end.y)));
            if (spine_fail.empty() && std::isfinite(got.x) && std::isfinite(got.y) &&
                (fabs(got.x - want_end.x) > 1e-9 * sc2 || fabs(got.y - want_end.y) > 1e-9 * sc2)) {
                char sb[256];
                snprintf(sb, sizeof sb, "call %d (wrapper %d) leaves the spine at (%.12g, %.12g), its arguments ask for (%.12g, %.12g)", ncalls + 1, wrapper, got.x, got.y,
                         want_end.x, want_end.y);
                spine_fail = sb;
            }
        }
        ncalls++;
        uint64_t sc = fp.spine.point_array.count;
        uint64_t k = sc - b.spine;
        char buf[64];
        snprintf(buf, sizeof buf, ";%d:%llu", wrapper, (unsigned long long)k);
        counts_payload += buf;
        snprintf(buf, sizeof buf, "%llu", (unsigned long long)sc);
        counts_impl += buf;
        for (uint64_t e = 0; e < n; e++) {
            uint64_t c = fp.elements[e].half_width_and_offset.count;
            snprintf(buf, sizeof buf, " %llu", (unsigned long long)c);
            counts_impl += buf;
            if (c != sc && !counts_fail) {
                counts_fail = true;
                fail_text = std::string("after call ") + std::to_string(ncalls) + " (" + WR[wrapper] + "): spine has " +
                            std::to_string(sc) + " points, element " + std::to_string(e) + " has " + std::to_string(c) + " entries";
            }
            if (c == b.cnt[e] + k && k > 0 && !linear_fail) {
                double tw = (passes && wo.ws) ? 0.5 * wo.w[e] : b.last[e].u;
                double to = (passes && wo.os) ? wo.o[e] : b.last[e].v;
                for (uint64_t j = 1; j <= k; j++) {
                    Vec2 v = fp.elements[e].half_width_and_offset[b.cnt[e] + j - 1];
                    ld f = (ld)j / (ld)k;
                    ld eu = (ld)b.last[e].u + ((ld)tw - (ld)b.last[e].u) * f;
                    ld ev = (ld)b.last[e].v + ((ld)to - (ld)b.last[e].v) * f;
                    if (fabsl(eu - v.u) > 1e-12L * (1 + fabsl(eu)) || fabsl(ev - v.v) > 1e-12L * (1 + fabsl(ev))) {
                        linear_fail = true;
                        fail_text = std::string("call ") + std::to_string(ncalls) + " (" + WR[wrapper] + ") element " +
                                    std::to_string(e) + " entry " + std::to_string(j) + "/" + std::to_string(k) +
                                    " is not the linear interpolation towards the requested value";
                    }
                }
            }
        }
        counts_impl += "|";
        update_heading();
    }
};

// parametric curve used by FlexPath::parametric: forward d, sideways e * sin(pi u)^2-like bump
struct ParamData {
    double fx, fy, lx, ly, d, e;
};
static Vec2 param_fn(double u, void* data) {
    ParamData* p = (ParamData*)data;
    double a = p->d * u, b = p->e * u * u * (3 - 2 * u);
    return Vec2{a * p->fx + b * p->lx, a * p->fy + b * p->ly};
}

static void add_num(std::vector<CurveInstruction>& v, double x) {
    CurveInstruction c;
    c.number = x;
    v.push_back(c);
}
static void add_cmd(std::vector<CurveInstruction>& v, char ch) {
    CurveInstruction c;
    c.number = 0;
    c.command = ch;
    v.push_back(c);
}

// one straight step of length len from the current heading turned by dturn
static Vec2 step_vec(double heading, double len) { return Vec2{len * cos(heading), len * sin(heading)}; }

static double pick_turn(Rng& g) {
    // degrees in [-100, 100], with some exact 0 / 90
    int r = (int)g.below(10);
    if (r == 0) return 0;
    if (r == 1) return M_PI / 2;
    if (r == 2) return -M_PI / 2;
    return ((double)g.range(-100, 100)) * M_PI / 180.0;
}

static void call_polyline(Builder& B) {
    Rng& g = *B.g;
    FlexPath& fp = B.fp;
    double Lmin = 4 * B.Wmax, Lmax = 9 * B.Wmax;
    auto len = [&]() { return Lmin + (Lmax - Lmin) * (double)g.below(1001) / 1000.0; };
    int kind = (int)g.below(8);
    Builder::Before b = B.before();
    bool rel = g.coin();
    Vec2 c = B.cur();
    if (kind == 0) {  // segment, one point
        Builder::WO wo = B.pick_wo(true);
        Vec2 d = step_vec(B.heading + pick_turn(g), len());
        fp.segment(rel ? d : c + d, wo.ws ? wo.w.data() : NULL, wo.os ? wo.o.data() : NULL, rel);
        B.expect_end(c + d);
        B.after(W_S, b, wo, true);
    } else if (kind == 1) {  // segment, array
        Builder::WO wo = B.pick_wo(true);
        int m = 2 + (int)g.below(2);
        std::vector<Vec2> pts;
        double h = B.heading;
        Vec2 p = rel ? Vec2{0, 0} : c;
        for (int i = 0; i < m; i++) {
            h += pick_turn(g);
            p = p + step_vec(h, len());
            pts.push_back(p);
        }
        Array<Vec2> arr = {};
        arr.items = pts.data();
        arr.count = pts.size();
        fp.segment(arr, wo.ws ? wo.w.data() : NULL, wo.os ? wo.o.data() : NULL, rel);
        B.expect_end(rel ? c + pts.back() : pts.back());
        B.after(W_SA, b, wo, true);
    } else if (kind == 2 || kind == 3) {  // horizontal / vertical, one coordinate
        Builder::WO wo = B.pick_wo(true);
        bool horiz = kind == 2;
        // direction with the smaller turn
        double hx = cos(B.heading), hy = sin(B.heading);
        double sgn = horiz ? (hx >= 0 ? 1 : -1) : (hy >= 0 ? 1 : -1);
        double d = sgn * len();
        if (horiz) fp.horizontal(rel ? d : c.x + d, wo.ws ? wo.w.data() : NULL, wo.os ? wo.o.data() : NULL, rel);
        else fp.vertical(rel ? d : c.y + d, wo.ws ? wo.w.data() : NULL, wo.os ? wo.o.data() : NULL, rel);
        B.expect_end(horiz ? Vec2{c.x + d, c.y} : Vec2{c.x, c.y + d});
        B.after(horiz ? W_H : W_V, b, wo, true);
    } else if (kind == 4 || kind == 5) {  // horizontal / vertical arrays (collinear steps)
        Builder::WO wo = B.pick_wo(true);
        bool horiz = kind == 4;
        double hx = cos(B.heading), hy = sin(B.heading);
        double sgn = horiz ? (hx >= 0 ? 1 : -1) : (hy >= 0 ? 1 : -1);
        std::vector<double> cs;
        double acc = rel ? 0 : (horiz ? c.x : c.y);
        int m = 2 + (int)g.below(2);
        for (int i = 0; i < m; i++) {
            acc += sgn * len();
            cs.push_back(acc);
        }
        Array<double> arr = {};
        arr.items = cs.data();
        arr.count = cs.size();
        if (horiz) fp.horizontal(arr, wo.ws ? wo.w.data() : NULL, wo.os ? wo.o.data() : NULL, rel);
        else fp.vertical(arr, wo.ws ? wo.w.data() : NULL, wo.os ? wo.o.data() : NULL, rel);
        {
            double last = rel ? (horiz ? c.x : c.y) + cs.back() : cs.back();
            B.expect_end(horiz ? Vec2{last, c.y} : Vec2{c.x, last});
        }
        B.after(horiz ? W_HA : W_VA, b, wo, true);
    } else {  // commands with l L h H v V
        Builder::WO wo = B.pick_wo(false);
        std::vector<CurveInstruction> v;
        int m = 1 + (int)g.below(3);
        double h = B.heading;
        Vec2 p = c;
        for (int i = 0; i < m; i++) {
            int t = (int)g.below(3);
            bool r = g.coin();
            if (t == 0) {
                h += pick_turn(g);
                Vec2 d = step_vec(h, len());
                add_cmd(v, r ? 'l' : 'L');
                add_num(v, r ? d.x : p.x + d.x);
                add_num(v, r ? d.y : p.y + d.y);
                p = p + d;
            } else if (t == 1) {
                double sgn = cos(h) >= 0 ? 1 : -1;
                double d = sgn * len();
                add_cmd(v, r ? 'h' : 'H');
                add_num(v, r ? d : p.x + d);
                p.x += d;
                h = sgn > 0 ? 0 : M_PI;
            } else {
                double sgn = sin(h) >= 0 ? 1 : -1;
                double d = sgn * len();
                add_cmd(v, r ? 'v' : 'V');
                add_num(v, r ? d : p.y + d);
                p.y += d;
                h = sgn > 0 ? M_PI / 2 : -M_PI / 2;
            }
        }
        fp.commands(v.data(), v.size());
        B.expect_end(p);
        B.after(W_CMD, b, wo, false);
    }
}

static void call_curved(Builder& B) {
    Rng& g = *B.g;
    FlexPath& fp = B.fp;
    double W = B.Wmax;
    int kind = (int)g.below(12);
    Builder::Before b = B.before();
    Vec2 c = B.cur();
    double h = B.heading;
    Vec2 f = Vec2{cos(h), sin(h)}, l = Vec2{-sin(h), cos(h)};
    double d = (8 + (double)g.below(5)) * W;                 // forward extent
    double e = ((double)g.range(-30, 30)) / 10.0 * W;        // sideways extent
    bool rel = g.coin();
    Vec2 ref = rel ? Vec2{0, 0} : c;
    auto P = [&](double a, double s) { return ref + f * a + l * s; };
    Builder::WO wo = B.pick_wo(kind != 11);
    const double* wp = wo.ws ? wo.w.data() : NULL;
    const double* op = wo.os ? wo.o.data() : NULL;
    Array<Vec2> arr = {};
    std::vector<Vec2> pts;
    if (kind == 0) {
        double r = (5 + (double)g.below(5)) * W, ang = ((double)g.range(20, 100)) * M_PI / 180 * (g.coin() ? 1 : -1);
        // turn() continues along the curve's recorded end direction: current point minus Curve::last_ctrl (the penultimate control
        // point of the last section - C15's bookkeeping theorem is about exactly this field)
        double hd = h;
        {
            Vec2 dlast = fp.spine.point_array[fp.spine.point_array.count - 1] - fp.spine.last_ctrl;
            if (dlast.length_sq() > 0) hd = atan2(dlast.y, dlast.x);
        }
        fp.turn(r, ang, wp, op);
        {
            double a0t = hd + (ang < 0 ? 0.5 * M_PI : -0.5 * M_PI);
            B.expect_end(Vec2{c.x - r * cos(a0t) + r * cos(a0t + ang), c.y - r * sin(a0t) + r * sin(a0t + ang)});
        }
        B.after(W_TURN, b, wo, true);
    } else if (kind == 1) {
        double r = (5 + (double)g.below(5)) * W, ang = ((double)g.range(20, 100)) * M_PI / 180 * (g.coin() ? 1 : -1);
        double a0 = h + (ang < 0 ? 0.5 * M_PI : -0.5 * M_PI);
        double ry = g.chance(30) ? r * (0.85 + 0.3 * (double)g.below(100) / 100) : r;
        fp.arc(r, ry, a0, a0 + ang, 0, wp, op);
        if (ry == r) B.expect_end(Vec2{c.x - r * cos(a0) + r * cos(a0 + ang), c.y - r * sin(a0) + r * sin(a0 + ang)});
        B.after(W_ARC, b, wo, true);
    } else if (kind == 2) {
        pts = {P(d / 3, 0), P(2 * d / 3, e / 2), P(d, e)};
        if (g.coin()) {  // two cubics in one call
            Vec2 q = pts[2] - (rel ? Vec2{0, 0} : c);
            Vec2 base = rel ? Vec2{0, 0} : c;
            Vec2 t = pts[2] - pts[1];
            t = t * (1 / sqrt(t.length_sq()));
            Vec2 ln = Vec2{-t.y, t.x};
            Vec2 o2 = base + q;
            pts.push_back(o2 + t * (d / 3));
            pts.push_back(o2 + t * (2 * d / 3) + ln * (-e / 2));
            pts.push_back(o2 + t * d + ln * (-e));
        }
        arr.items = pts.data();
        arr.count = pts.size();
        fp.cubic(arr, wp, op, rel);
        B.expect_end(rel ? c + pts.back() : pts.back());
        B.after(W_CUBIC, b, wo, true);
    } else if (kind == 3) {
        pts = {P(2 * d / 3, e / 2), P(d, e)};
        arr.items = pts.data();
        arr.count = pts.size();
        fp.cubic_smooth(arr, wp, op, rel);
        B.expect_end(rel ? c + pts.back() : pts.back());
        B.after(W_CUBICS, b, wo, true);
    } else if (kind == 4) {
        pts = {P(d / 2, 0), P(d, e)};
        arr.items = pts.data();
        arr.count = pts.size();
        fp.quadratic(arr, wp, op, rel);
        B.expect_end(rel ? c + pts.back() : pts.back());
        B.after(W_QUAD, b, wo, true);
    } else if (kind == 5) {
        fp.quadratic_smooth(P(d, e / 2), wp, op, rel);
        B.expect_end(rel ? c + P(d, e / 2) : P(d, e / 2));
        B.after(W_QUADS, b, wo, true);
    } else if (kind == 6) {
        pts = {P(d, e / 2), P(2 * d, 0)};
        arr.items = pts.data();
        arr.count = pts.size();
        fp.quadratic_smooth(arr, wp, op, rel);
        B.expect_end(rel ? c + pts.back() : pts.back());
        B.after(W_QUADSA, b, wo, true);
    } else if (kind == 7) {
        pts = {P(d / 4, 0), P(d / 2, e / 2), P(3 * d / 4, e), P(d, e)};
        arr.items = pts.data();
        arr.count = pts.size();
        fp.bezier(arr, wp, op, rel);
        B.expect_end(rel ? c + pts.back() : pts.back());
        B.after(W_BEZ, b, wo, true);
    } else if (kind == 8) {
        pts = {P(d, e / 2), P(2 * d, e)};
        if (g.coin()) pts.push_back(P(3 * d, 0));
        arr.items = pts.data();
        arr.count = pts.size();
        std::vector<double> angles(pts.size() + 1, 0.0);
        bool* cons = (bool*)calloc(pts.size() + 1, sizeof(bool));
        std::vector<Vec2> tension(pts.size() + 1, Vec2{1, 1});
        if (g.coin()) {
            angles[0] = h;
            cons[0] = true;
        }
        fp.interpolation(arr, angles.data(), cons, tension.data(), 1, 1, false, wp, op, rel);
        free(cons);
        B.expect_end(rel ? c + pts.back() : pts.back());
        B.after(W_INTERP, b, wo, true);
    } else if (kind == 9) {
        ParamData pd = {f.x, f.y, l.x, l.y, d, e};
        // FlexPath::parametric: relative adds the current point; absolute needs it in the function
        fp.parametric(param_fn, &pd, wp, op, true);
        B.expect_end(c + param_fn(1, &pd));
        B.after(W_PARAM, b, wo, true);
    } else if (kind == 10) {  // straight piece between curves
        Vec2 dd = f * (5 * W);
        fp.segment(rel ? dd : c + dd, wp, op, rel);
        B.expect_end(c + dd);
        B.after(W_S, b, wo, true);
    } else {  // commands with curve instructions
        std::vector<CurveInstruction> v;
        int t = (int)g.below(7);
        Vec2 p1 = f * (d / 3), p2 = f * (2 * d / 3) + l * (e / 2), p3 = f * d + l * e;
        if (t == 0) {
            add_cmd(v, 'c');
            add_num(v, p1.x); add_num(v, p1.y); add_num(v, p2.x); add_num(v, p2.y); add_num(v, p3.x); add_num(v, p3.y);
        } else if (t == 1) {
            add_cmd(v, 'C');
            add_num(v, c.x + p1.x); add_num(v, c.y + p1.y); add_num(v, c.x + p2.x); add_num(v, c.y + p2.y);
            add_num(v, c.x + p3.x); add_num(v, c.y + p3.y);
        } else if (t == 2) {
            add_cmd(v, 's');
            add_num(v, p2.x); add_num(v, p2.y); add_num(v, p3.x); add_num(v, p3.y);
        } else if (t == 3) {
            add_cmd(v, 'q');
            add_num(v, p1.x * 1.5); add_num(v, p1.y * 1.5); add_num(v, p3.x); add_num(v, p3.y);
        } else if (t == 4) {
            add_cmd(v, 't');
            add_num(v, p3.x); add_num(v, p3.y);
        } else if (t == 5) {
            add_cmd(v, 'a');
            add_num(v, 6 * W);
            add_num(v, (g.coin() ? 1 : -1) * ((double)g.range(20, 90)) * M_PI / 180);
        } else {
            double ang = (g.coin() ? 1 : -1) * ((double)g.range(20, 90)) * M_PI / 180;
            double a0 = h + (ang < 0 ? 0.5 * M_PI : -0.5 * M_PI);
            if (g.coin()) {
                add_cmd(v, 'A');
                add_num(v, 6 * W); add_num(v, a0); add_num(v, a0 + ang);
            } else {
                add_cmd(v, 'E');
                add_num(v, 6 * W); add_num(v, 6 * W); add_num(v, a0); add_num(v, a0 + ang); add_num(v, 0);
            }
        }
        fp.commands(v.data(), v.size());
        B.after(W_CMD, b, wo, false);
    }
}

// ------------------------------------------------------------------ specification-side centre line
struct Centre {
    std::vector<V> pts;
    std::vector<ld> hw;          // half width attached to each output point
    std::vector<bool> joined;    // interior output point that carries a join (not a bend)
    ld theta_max = 0;            // largest turn angle at a join
    ld slope_max = 0;            // largest |d hw| / length
    bool borderline = false;     // a bend-fits decision closer than 1e-7 to its threshold
    bool runaway = false;        // an intersection of consecutive displaced lines far outside its segments
    std::string why;
    bool smooth_deg = false;     // an outer-side join whose two side points are closer than a quarter of the half width
    std::vector<int> bent;       // per spine vertex: 1 bend, 0 corner
    V t_first, t_last;
};

// hw_index_bug: use half_widths[2 * 1] in the fits test as FlexPath::element_center does
static Centre centre_line(const Array<Vec2>& sp, const Vec2* wo, BendType bend, double bend_radius, double tol,
                          bool hw_index_bug) {
    Centre C;
    uint64_t n = sp.count;
    std::vector<V> a(n - 1), b(n - 1), t(n - 1);
    for (uint64_t i = 0; i + 1 < n; i++) {
        V s0 = {sp[i].x, sp[i].y}, s1 = {sp[i + 1].x, sp[i + 1].y};
        V nrm = unitl(orthol(s1 - s0));
        a[i] = s0 + nrm * (ld)wo[i].v;
        b[i] = s1 + nrm * (ld)wo[i + 1].v;
        t[i] = unitl(b[i] - a[i]);
    }
    std::vector<V> c(n);
    c[0] = a[0];
    c[n - 1] = b[n - 2];
    for (uint64_t k = 1; k + 1 < n; k++) {
        ld den = crossl(t[k - 1], t[k]);
        if (fabsl(den) >= 1e-8L) {
            V dp = a[k] - b[k - 1];
            ld u0 = crossl(dp, t[k]) / den;
            c[k] = b[k - 1] + t[k - 1] * u0;
            // for constant offsets |u0| = |off| tan(theta / 2); a taper slope close to the turn angle
            // makes the two lines almost parallel and the intersection runs away along them
            ld gap = lenl(dp);
            if (fabsl(u0) > 4 * gap + 1e-9L && fabsl(u0) > 0.25L * std::min(lenl(b[k - 1] - a[k - 1]), lenl(b[k] - a[k]))) { C.runaway = true; C.why = "the intersection of two consecutive displaced centre lines lies far outside their segments (vertex " + std::to_string(k) + ")"; }
        } else {
            c[k] = (b[k - 1] + a[k]) * 0.5L;
        }
    }
    // a centre vertex that lands behind the previous one (the centre line folds back on itself)
    for (uint64_t k = 0; k + 1 < n; k++)
        if (dotl(c[k + 1] - c[k], t[k]) <= 0 && !C.runaway) { C.runaway = true; C.why = "the centre line folds back on itself between vertices " + std::to_string(k) + " and " + std::to_string(k + 1); }
    C.t_first = t[0];
    C.t_last = t[n - 2];
    C.bent.assign(n, 0);
    C.pts.push_back(c[0]);
    C.hw.push_back(wo[0].u);
    C.joined.push_back(false);
    ld len_next = lenl(c[1] - c[0]);
    for (uint64_t k = 1; k + 1 < n; k++) {
        ld len_prev = len_next;
        len_next = lenl(c[k + 1] - c[k]);
        bool fits = false;
        ld L = 0, R = 0, dirn = 1, theta = 0;
        V t0 = t[k - 1], t1 = t[k];
        ld cr = crossl(t0, t1), dt = dotl(t0, t1);
        theta = atan2l(fabsl(cr), dt);
        if (bend != BendType::None) {
            dirn = cr < 0 ? -1 : 1;
            R = (ld)bend_radius - dirn * (ld)wo[k].v;
            L = R * tanl(theta / 2);
            ld hwk = hw_index_bug ? (ld)wo[1].u : (ld)wo[k].u;
            fits = !(L > len_prev || L > len_next || R <= hwk);
            ld m = std::min(std::min(fabsl(L - len_prev), fabsl(L - len_next)), fabsl(R - hwk));
            if (m < 1e-7L) C.borderline = true;
        }
        if (fits) {
            C.bent[k] = 1;
            len_next -= L;
            V A = c[k] - t0 * L;
            V ctr = A + orthol(t0) * (dirn * R);
            ld a0 = atan2l(A.y - ctr.y, A.x - ctr.x);
            ld sag = (ld)tol / 10;
            ld stepmax = R > sag ? 2 * acosl(1 - sag / R) : 1;
            int m = (int)ceill(theta / stepmax);
            if (m < 1) m = 1;
            for (int j = 0; j <= m; j++) {
                ld ang = a0 + dirn * theta * j / m;
                C.pts.push_back(V{ctr.x + R * cosl(ang), ctr.y + R * sinl(ang)});
                C.hw.push_back(wo[k].u);
                C.joined.push_back(false);
            }
        } else {
            C.pts.push_back(c[k]);
            C.hw.push_back(wo[k].u);
            C.joined.push_back(true);
            if (theta > C.theta_max) C.theta_max = theta;
        }
    }
    C.pts.push_back(c[n - 1]);
    C.hw.push_back(wo[n - 1].u);
    C.joined.push_back(false);
    // inner corners of the two sides: the C++ takes the intersection of consecutive side lines without
    // looking where it falls; when it falls outside the side segments the outline crosses itself
    for (uint64_t k = 1; k + 1 < n; k++) {
        if (C.bent[k]) continue;
        for (int sd = -1; sd <= 1; sd += 2) {
            V n0 = orthol(t[k - 1]) * (ld)sd, n1 = orthol(t[k]) * (ld)sd;
            V q0 = c[k - 1] + n0 * (ld)wo[k - 1].u, r1 = c[k] + n0 * (ld)wo[k].u;
            V r2 = c[k] + n1 * (ld)wo[k].u, q3 = c[k + 1] + n1 * (ld)wo[k + 1].u;
            V d0 = r1 - q0, d1 = q3 - r2;
            ld l0 = lenl(d0), l1 = lenl(d1);
            if (l0 <= 0 || l1 <= 0) continue;
            V u0v = d0 * (1 / l0), u1v = d1 * (1 / l1);
            ld den = crossl(u0v, u1v);
            if (fabsl(den) < 1e-8L) {
                C.smooth_deg = true;
                continue;
            }
            bool inner = sd > 0 ? den > 0 : den < 0;
            if (!inner) {
                if (lenl(r2 - r1) < 0.25L * (ld)wo[k].u) C.smooth_deg = true;
                continue;
            }
            V dp = r2 - r1;
            ld s0 = crossl(dp, u1v) / den, s1 = crossl(dp, u0v) / den;
            // intersection = r1 + s0 u0v = r2 + s1 u1v; inside the side segments when -l0 <= s0 <= 0 <= s1 <= l1
            if ((s0 < -l0 || s0 > 1e-9L + 0.01L * l0 || s1 > l1 || s1 < -1e-9L - 0.01L * l1) && !C.runaway) { C.runaway = true; C.why = std::string("the inner-corner intersection of the ") + (sd > 0 ? "left" : "right") + " side lines at vertex " + std::to_string(k) + " lies outside the side segments (the outline crosses itself)"; }
        }
    }
    for (size_t i = 0; i + 1 < C.pts.size(); i++) {
        ld l = lenl(C.pts[i + 1] - C.pts[i]);
        if (l > 0) C.slope_max = std::max(C.slope_max, fabsl(C.hw[i + 1] - C.hw[i]) / l);
    }
    return C;
}

static ld dist_point_seg(V p, V a, V b) {
    V d = b - a, v = p - a;
    ld L = dotl(d, d), tt = dotl(v, d);
    if (L <= 0 || tt <= 0) return lenl(v);
    if (tt >= L) return lenl(p - b);
    return fabsl(crossl(d, v)) / sqrtl(L);
}
static ld dist_point_poly(V p, const std::vector<V>& pl) {
    ld best = 1e300L;
    if (pl.size() == 1) return lenl(p - pl[0]);
    for (size_t i = 0; i + 1 < pl.size(); i++) best = std::min(best, dist_point_seg(p, pl[i], pl[i + 1]));
    return best;
}
// symmetric polyline deviation (vertex to polyline, both ways)
static ld poly_dev(const std::vector<V>& p, const std::vector<V>& q) {
    ld m = 0;
    for (auto& v : p) m = std::max(m, dist_point_poly(v, q));
    for (auto& v : q) m = std::max(m, dist_point_poly(v, p));
    return m;
}

static std::string hexpts(const std::vector<V>& v) {
    std::string s;
    for (size_t i = 0; i < v.size(); i++) {
        if (i) s += " ";
        s += hex_i64(togridl(v[i].x)) + " " + hex_i64(togridl(v[i].y));
    }
    return s;
}

static const char* join_name(JoinType j) { return join_type_name(j); }

// ------------------------------------------------------------------ region case for one element
static void region_case(Builder& B, uint64_t e, const std::string& gid, Polygon* poly, Emit& em, const std::string& tp = "") {
    FlexPath& fp = B.fp;
    const ElemCfg& cfg = B.el[e];
    const Vec2* wo = fp.elements[e].half_width_and_offset.items;
    Centre C = centre_line(fp.spine.point_array, wo, cfg.bend, cfg.bend_radius, B.tol, false);
    // NaN / infinite outline vertices
    for (uint64_t i = 0; i < poly->point_array.count; i++) {
        if (!std::isfinite(poly->point_array[i].x) || !std::isfinite(poly->point_array[i].y)) {
            em.K("outline", gid + ":" + std::to_string(e));
            em.I("nan");
            // smooth joins run Curve::interpolation from one side point to the next; at a straight-through
            // or gently turning vertex the two points (nearly) coincide and the spline is 0 / 0
            em.P(cfg.join == JoinType::Smooth
                     ? "FAIL FlexPath::to_polygons:smooth-join-degenerate the outline has NaN vertices: smooth join between (nearly) coincident side points at a straight-through or gently turning vertex"
                     : "FAIL flexpath-outline-nan the outline has NaN or infinite vertices");
            return;
        }
    }
    if (C.borderline) {
        em.T(tp + "region-skipped-borderline-bend");
        return;
    }
    ld tol = B.tol;
    ld tolc = 4 * tol + 1e-6L;   // arcs of joins / caps / bends are polygonal within the path tolerance
    ld tolf = 2 * tol + 1e-6L;
    bool round_join = cfg.join == JoinType::Round;
    // reach of the join beyond half the width
    ld reach = 1;
    ld th = C.theta_max + 2 * atanl(C.slope_max);
    if (th > 2.6L) {
        em.T(tp + "region-skipped-sharp-turn");
        return;
    }
    switch (cfg.join) {
        case JoinType::Round:
        case JoinType::Bevel:
            reach = 1;
            break;
        case JoinType::Natural:
            reach = sqrtl(2.0L);
            break;
        case JoinType::Miter:
            reach = 1 / cosl(th / 2);
            break;
        default:  // Smooth
            reach = 1.05L / cosl(th / 2);
    }
    reach *= (1 + C.slope_max);
    // spikes: every outline vertex must stay within a generous distance of the spine itself
    // (offset and half width magnified by the sharpest mitre, plus the cap extension)
    bool spiky = false;
    {
        std::vector<V> spv;
        ld offmax = 0, hwmax = 0, thmax = 0;
        for (uint64_t i = 0; i < fp.spine.point_array.count; i++) {
            spv.push_back(V{fp.spine.point_array[i].x, fp.spine.point_array[i].y});
            offmax = std::max(offmax, (ld)fabs(wo[i].v));
            hwmax = std::max(hwmax, (ld)wo[i].u);
        }
        for (size_t i = 1; i + 1 < spv.size(); i++) {
            V d0 = spv[i] - spv[i - 1], d1 = spv[i + 1] - spv[i];
            thmax = std::max(thmax, atan2l(fabsl(crossl(d0, d1)), dotl(d0, d1)));
        }
        if (thmax > 2.0L) thmax = 2.0L;
        ld extmax = cfg.end == EndType::Extended ? std::max((ld)cfg.ext.u, (ld)cfg.ext.v) : (cfg.end == EndType::Flush ? 0 : 1.5L * hwmax);
        // a circular bend moves the centre line away from the corner of the spine by R (1 / cos(theta / 2) - 1)
        ld bend_allow = cfg.bend == BendType::Circular ? ((ld)fabs(cfg.bend_radius) + offmax) * (1 / cosl(thmax / 2) - 1) : 0;
        ld bound = 1.3L * (offmax + std::max(reach, 1.5L) * hwmax) / cosl(thmax / 2) + bend_allow + extmax + 2 * tol;
        ld worst = 0;
        for (uint64_t i = 0; i < poly->point_array.count; i++)
            worst = std::max(worst, dist_point_poly(V{poly->point_array[i].x, poly->point_array[i].y}, spv));
        if (worst > bound) {
            spiky = true;
            char buf[200];
            snprintf(buf, sizeof buf, "an outline vertex lies %.4Lg from the spine (half width %.4Lg, offset %.4Lg, bound %.4Lg)", worst, hwmax, offmax, bound);
            em.K("spike", gid + ":" + std::to_string(e));
            em.I("spike");
            em.P(std::string("FAIL FlexPath::to_polygons:corner-runaway ") + buf +
                 ": the intersection of two almost parallel displaced lines (taper slope close to the turn angle) runs away along them");
        }
    }
    std::string flag_key = "FlexPath::to_polygons:corner-runaway";
    if (cfg.join == JoinType::Smooth && C.smooth_deg && !spiky && !C.runaway) {
        // Curve::interpolation between two side points that almost coincide: the spline is ill-conditioned
        // (NaN when they coincide to an ulp, overshoot of many widths otherwise)
        spiky = true;
        flag_key = "FlexPath::to_polygons:smooth-join-degenerate";
        em.T(tp + "flagged-smooth-join-between-close-side-points");
    }
    if (C.runaway && !spiky) {
        // no outline vertex is far from the spine, but the construction is ill-conditioned here (see Centre::why):
        // a disagreement of the region check on this element is attributed to that
        spiky = true;
        em.T(tp + "flagged-corner-runaway-geometry");
    }
    size_t m = C.pts.size();
    std::vector<ld> rc(m - 1), rf(m - 1);
    for (size_t i = 0; i + 1 < m; i++) {
        ld lo = std::min(C.hw[i], C.hw[i + 1]), hi = std::max(C.hw[i], C.hw[i + 1]);
        rc[i] = lo - tolc > 0 ? lo - tolc : 0;
        rf[i] = reach * hi + tolf;
    }
    // caps: extension of the centre line beyond its ends
    ld hw0 = C.hw[0], hw1 = C.hw[m - 1];
    ld ext0 = 0, ext1 = 0;
    bool plane_needed = true;
    switch (cfg.end) {
        case EndType::Flush: break;
        case EndType::HalfWidth: ext0 = hw0; ext1 = hw1; break;
        case EndType::Extended: ext0 = cfg.ext.u; ext1 = cfg.ext.v; break;
        case EndType::Round: plane_needed = false; break;
        default: ext0 = 1.5L * hw0; ext1 = 1.5L * hw1; break;  // Smooth: a spline through the cap corners
    }
    std::vector<V> cext;
    std::vector<ld> rfe;
    if (ext0 > 0) {
        cext.push_back(C.pts[0] - C.t_first * ext0);
        rfe.push_back((cfg.end == EndType::Smooth ? 1.5L : 1.0L) * hw0 * (1 + C.slope_max) + tolf);
    }
    for (size_t i = 0; i < m; i++) {
        cext.push_back(C.pts[i]);
        if (i + 1 < m) rfe.push_back(rf[i]);
    }
    if (ext1 > 0) {
        cext.push_back(C.pts[m - 1] + C.t_last * ext1);
        rfe.push_back((cfg.end == EndType::Smooth ? 1.5L : 1.0L) * hw1 * (1 + C.slope_max) + tolf);
    }
    // cover polyline: the centre line with its straight cap extensions (half-width / extended ends)
    bool straight_cap = cfg.end == EndType::Flush || cfg.end == EndType::HalfWidth || cfg.end == EndType::Extended;
    std::vector<V> ccov;
    std::vector<ld> rcc;
    if (straight_cap && ext0 > 0) {
        ccov.push_back(C.pts[0] - C.t_first * ext0);
        rcc.push_back(hw0 - tolc > 0 ? hw0 - tolc : 0);
    }
    for (size_t i = 0; i < m; i++) {
        ccov.push_back(C.pts[i]);
        if (i + 1 < m) rcc.push_back(rc[i]);
    }
    if (straight_cap && ext1 > 0) {
        ccov.push_back(C.pts[m - 1] + C.t_last * ext1);
        rcc.push_back(hw1 - tolc > 0 ? hw1 - tolc : 0);
    }
    const ld S20 = 1048576.0L;  // 2^20
    auto plane_str = [&](V ep, V td, ld margin) {
        int64_t mg = (int64_t)ceill(margin * (ld)GRID * S20);
        return hex_i64(togridl(ep.x)) + " " + hex_i64(togridl(ep.y)) + " " + hex_i64((int64_t)llroundl(td.x * S20)) + " " +
               hex_i64((int64_t)llroundl(td.y * S20)) + " " + hex_i64(mg);
    };
    V cap0 = C.pts[0] - C.t_first * (straight_cap ? ext0 : 0), cap1 = C.pts[m - 1] + C.t_last * (straight_cap ? ext1 : 0);
    // planes for the discs of round joins: behind the cap planes (end planes for smooth ends) by tolc
    std::string planes;
    if (round_join && plane_needed)
        planes = plane_str(cap0, C.t_first * (-1.0L), tolc) + " " + plane_str(cap1, C.t_last, tolc);
    // with bands the two ends are pulled in by the guard band (points on the cap planes are on the outline)
    if (!round_join) {
        size_t mc = ccov.size();
        ld l0 = lenl(ccov[1] - ccov[0]), l1 = lenl(ccov[mc - 1] - ccov[mc - 2]);
        if (l0 > 3 * tolc) ccov[0] = ccov[0] + unitl(ccov[1] - ccov[0]) * tolc;
        if (l1 > 3 * tolc) ccov[mc - 1] = ccov[mc - 1] - unitl(ccov[mc - 1] - ccov[mc - 2]) * tolc;
    }
    // straight caps: nothing beyond the cap plane, except what is near the rest of the path
    std::string capstr[2];
    if (straight_cap) {
        for (int side = 0; side < 2; side++) {
            V ep = side ? cap1 : cap0;
            V td = side ? C.t_last : C.t_first * (-1.0L);
            ld clear = 2.5L * (side ? rfe.back() : rfe.front()) + (side ? ext1 : ext0);
            std::vector<V> rest;
            std::vector<ld> rrest;
            // keep the longest run of segments with both ends farther than `clear` from the end point
            V endp = side ? C.pts[m - 1] : C.pts[0];
            std::vector<bool> keep(cext.size() - 1);
            for (size_t i = 0; i + 1 < cext.size(); i++)
                keep[i] = lenl(cext[i] - endp) > clear && lenl(cext[i + 1] - endp) > clear;
            // the dropped pieces must be one run at that end of the path: otherwise the path comes back near its
            // own end and no claim is made about this cap
            size_t first_keep = 0, last_keep = 0;
            bool any = false;
            for (size_t i = 0; i < keep.size(); i++)
                if (keep[i]) {
                    if (!any) first_keep = i;
                    last_keep = i;
                    any = true;
                }
            bool simple = true;
            if (any)
                for (size_t i = first_keep; i <= last_keep; i++)
                    if (!keep[i]) simple = false;
            if (any && (side == 0 ? last_keep + 1 != keep.size() : first_keep != 0)) simple = false;
            if (!simple) continue;
            if (any) {
                for (size_t i = first_keep; i <= last_keep; i++) {
                    rest.push_back(cext[i]);
                    rrest.push_back(rfe[i]);
                }
                rest.push_back(cext[last_keep + 1]);
            }
            std::string rr;
            for (size_t i = 0; i < rrest.size(); i++) rr += (i ? " " : "") + hex_i64((int64_t)floorl(rrest[i] * (ld)GRID));
            capstr[side] = plane_str(ep, td, tolf) + "|" + hexpts(rest) + "|" + rr;
        }
    }
    // sample points
    std::vector<V> smp;
    Rng& g = *B.g;
    auto lat = [&](size_t i, ld f, ld dist) {
        V p = C.pts[i] + (C.pts[i + 1] - C.pts[i]) * f;
        V nn = orthol(unitl(C.pts[i + 1] - C.pts[i]));
        smp.push_back(p + nn * dist);
        smp.push_back(p - nn * dist);
    };
    size_t stride = m > 6 ? (m + 4) / 5 : 1;
    for (size_t i = (m > 6 ? g.below(stride) : 0); i + 1 < m; i += stride) {
        ld fs[2] = {0.5L, 0.05L + 0.9L * (ld)g.below(1001) / 1000.0L};
        for (ld f : fs) {
            ld hwl = C.hw[i] + (C.hw[i + 1] - C.hw[i]) * f;
            smp.push_back(C.pts[i] + (C.pts[i + 1] - C.pts[i]) * f);
            lat(i, f, (0.2L + 0.6L * (ld)g.below(101) / 100.0L) * hwl);
            lat(i, f, 0.97L * rc[i]);
            lat(i, f, rf[i] * 1.03L);
            lat(i, f, rf[i] * 1.3L + (ld)g.below(100) / 100.0L * hwl);
        }
    }
    // around interior vertices, on both sides of the bisector
    size_t vstride = m > 6 ? (m + 2) / 4 : 1;
    for (size_t i = 1; i + 1 < m; i += vstride) {
        V d0 = unitl(C.pts[i] - C.pts[i - 1]), d1 = unitl(C.pts[i + 1] - C.pts[i]);
        V bis = unitl(orthol(d0 + d1));
        ld hwl = C.hw[i];
        ld ds[4] = {0.6L, 0.93L, 1.08L * reach, 1.6L * reach};
        for (ld k : ds) {
            smp.push_back(C.pts[i] + bis * (k * hwl));
            smp.push_back(C.pts[i] - bis * (k * hwl));
        }
    }
    // around the caps
    for (int side = 0; side < 2; side++) {
        V ep = side ? C.pts[m - 1] : C.pts[0];
        V td = side ? C.t_last : C.t_first * (-1.0L);
        V nn = orthol(td);
        ld hwl = side ? hw1 : hw0, ex = side ? ext1 : ext0;
        ld along[5] = {-0.5L * hwl, ex * 0.5L + 0.05L * hwl, ex + 0.4L * hwl, ex + 1.15L * hwl, ex + 2.2L * hwl};
        ld lats[3] = {0.1L, 0.85L, -1.2L};
        for (ld al : along)
            for (ld lt : lats) smp.push_back(ep + td * al + nn * (lt * hwl));
    }
    // random points in the bounding box
    {
        ld x0 = 1e300L, y0 = 1e300L, x1 = -1e300L, y1 = -1e300L;
        for (auto& p : cext) {
            x0 = std::min(x0, p.x); y0 = std::min(y0, p.y); x1 = std::max(x1, p.x); y1 = std::max(y1, p.y);
        }
        ld mg = 3 * std::max(hw0, hw1);
        for (int i = 0; i < 8; i++)
            smp.push_back(V{x0 - mg + (x1 - x0 + 2 * mg) * (ld)g.below(10001) / 10000.0L,
                            y0 - mg + (y1 - y0 + 2 * mg) * (ld)g.below(10001) / 10000.0L});
    }
    // outline
    std::vector<V> outline;
    for (uint64_t i = 0; i < poly->point_array.count; i++) outline.push_back(V{poly->point_array[i].x, poly->point_array[i].y});
    auto radii = [&](const std::vector<ld>& r) {
        std::string s;
        for (size_t i = 0; i < r.size(); i++) {
            if (i) s += " ";
            s += hex_i64((int64_t)floorl(r[i] * (ld)GRID));
        }
        return s;
    };
    std::string payload = gid + ":" + std::to_string(e) + ";band=" + (round_join ? "0" : "1") + ";O=" + hexpts(outline) +
                          ";C=" + hexpts(ccov) + ";E=" + hexpts(cext) + ";RC=" + radii(rcc) + ";RF=" + radii(rfe) +
                          ";PL=" + planes + ";K0=" + capstr[0] + ";K1=" + capstr[1] + ";S=" + hexpts(smp);
    if (spiky) em.T(tp + std::string("spiky-in-family-") + (B.family == 0 ? "polyline" : (B.family == 1 ? "curved" : "mixed")));
    em.K(spiky ? "region_flagged" : "region", spiky ? "k=" + flag_key + ";" + payload : payload);
    em.I("ok");
    em.T(tp + std::string("region-join-") + join_name(cfg.join));
    em.T(tp + std::string("region-end-") + end_type_name(cfg.end));
    em.T(tp + std::string("region-bend-") + (cfg.bend == BendType::None ? "none" : "circular"));
    int nb = 0;
    for (int x : C.bent) nb += x;
    if (nb) em.T(tp + "region-with-fitting-bend");
}

// ------------------------------------------------------------------ centre line of the implementation
static void center_case(Builder& B, uint64_t e, const std::string& gid, Emit& em) {
    FlexPath& fp = B.fp;
    const ElemCfg& cfg = B.el[e];
    const Vec2* wo = fp.elements[e].half_width_and_offset.items;
    Centre C = centre_line(fp.spine.point_array, wo, cfg.bend, cfg.bend_radius, B.tol, false);
    if (C.borderline) return;
    Array<Vec2> res = {};
    fp.element_center(fp.elements + e, res);
    std::vector<V> impl;
    for (uint64_t i = 0; i < res.count; i++) impl.push_back(V{res[i].x, res[i].y});
    res.clear();
    ld dev = poly_dev(impl, C.pts);
    ld lim = 2 * (ld)B.tol + 1e-9L;
    em.K("center", gid + ":" + std::to_string(e));
    char buf[200];
    if (dev <= lim) {
        em.I("ok");
        em.P("ok");
    } else {
        Centre Cb = centre_line(fp.spine.point_array, wo, cfg.bend, cfg.bend_radius, B.tol, true);
        ld devb = poly_dev(impl, Cb.pts);
        em.I("differs");
        if (devb <= lim) {
            std::string where;
            for (size_t k = 0; k < C.bent.size(); k++)
                if (C.bent[k] != Cb.bent[k]) where += " vertex " + std::to_string(k) + (C.bent[k] ? " (outline bends, centre line takes the corner)" : " (outline takes the corner, centre line bends)");
            snprintf(buf, sizeof buf, "deviation %.6Lg;", dev);
            em.P(std::string("FAIL FlexPath::element_center:bend-index element_center decides the bend with half_widths[2*1]: ") + buf + where);
        } else {
            snprintf(buf, sizeof buf, "deviation %.6Lg (limit %.3Lg)", dev, lim);
            em.P(std::string("FAIL flexpath-center-mismatch element_center differs from the offset centre line: ") + buf);
        }
    }
}

// ------------------------------------------------------------------ PATH records
static void record_case(Builder& B, bool oas, const std::string& gid, const std::string& outdir, Emit& em) {
    FlexPath& fp = B.fp;
    char fname[512];
    snprintf(fname, sizeof fname, "%s/c07_%d.%s", outdir.c_str(), (int)getpid(), oas ? "oas" : "gds");
    Library lib = {};
    lib.init("L", 1e-6, 1e-9);
    Cell cell = {};
    cell.init("C");
    lib.cell_array.append(&cell);
    fp.simple_path = true;
    cell.flexpath_array.append(&fp);
    ErrorCode werr = oas ? lib.write_oas(fname, 0, 0, 0) : lib.write_gds(fname, 0, NULL);
    fp.simple_path = false;
    cell.flexpath_array.count = 0;
    lib.cell_array.count = 0;
    em.K(oas ? "oas" : "gds", gid);
    if (werr != ErrorCode::NoError) {
        em.I("write-error");
        em.P("FAIL flexpath-record-write write returned an error code");
        unlink(fname);
        return;
    }
    ErrorCode rerr = ErrorCode::NoError;
    Library back = oas ? read_oas(fname, 0, B.tol, &rerr) : read_gds(fname, 0, B.tol, NULL, &rerr);
    unlink(fname);
    std::string fail;
    if (back.cell_array.count != 1 || back.cell_array[0]->flexpath_array.count != B.n) {
        fail = "FAIL flexpath-record-count the file does not hold one PATH per element";
    } else {
        for (uint64_t e = 0; e < B.n && fail.empty(); e++) {
            FlexPath* rp = back.cell_array[0]->flexpath_array[e];
            const ElemCfg& cfg = B.el[e];
            const Vec2* wo = fp.elements[e].half_width_and_offset.items;
            Centre C = centre_line(fp.spine.point_array, wo, cfg.bend, cfg.bend_radius, B.tol, false);
            if (C.borderline) continue;
            std::vector<V> got;
            for (uint64_t i = 0; i < rp->spine.point_array.count; i++) got.push_back(V{rp->spine.point_array[i].x, rp->spine.point_array[i].y});
            ld dev = poly_dev(got, C.pts);
            ld lim = 2 * (ld)B.tol + 3e-3L;
            char buf[256];
            if (dev > lim) {
                Centre Cb = centre_line(fp.spine.point_array, wo, cfg.bend, cfg.bend_radius, B.tol, true);
                if (poly_dev(got, Cb.pts) <= lim) {
                    snprintf(buf, sizeof buf, "element %d: PATH centre line deviates %.6Lg from the centre line of the outline", (int)e, dev);
                    fail = std::string("FAIL FlexPath::element_center:bend-index ") + buf;
                } else {
                    snprintf(buf, sizeof buf, "element %d: PATH centre line deviates %.6Lg (limit %.3Lg)", (int)e, dev, lim);
                    fail = std::string("FAIL flexpath-record-centre ") + buf;
                }
                break;
            }
            double w_back = 2 * rp->elements[0].half_width_and_offset[0].u;
            double w_orig = 2 * wo[0].u;
            if (fabs(w_back - w_orig) > 1.5e-3) {
                snprintf(buf, sizeof buf, "element %d: width %.9g written, %.9g read back", (int)e, w_orig, w_back);
                fail = std::string("FAIL flexpath-record-width ") + buf;
                break;
            }
            // end type: GDSII has flush / round / half-width / extended; OASIS has no round ends
            EndType want = cfg.end == EndType::Smooth ? EndType::Round : cfg.end;
            EndType have = rp->elements[0].end_type;
            bool same_end = have == want;
            if (want == EndType::Extended) {
                // extensions equal to 0 or to the half width are read back as flush / half-width
                same_end = true;
                double e0 = have == EndType::Extended ? rp->elements[0].end_extensions.u : (have == EndType::HalfWidth ? wo[0].u : (have == EndType::Flush ? 0 : -1));
                double e1 = have == EndType::Extended ? rp->elements[0].end_extensions.v : (have == EndType::HalfWidth ? wo[0].u : (have == EndType::Flush ? 0 : -1));
                if (fabs(e0 - cfg.ext.u) > 1.5e-3 || fabs(e1 - cfg.ext.v) > 1.5e-3) same_end = false;
            }
            if (!same_end) {
                if (oas && want == EndType::Round && have == EndType::Flush)
                    fail = "FAIL FlexPath::to_oas:round-end-flush a round-ended path is written to OASIS with flush ends (the format has no round ends; the region loses its caps)";
                else {
                    snprintf(buf, sizeof buf, "element %d: end type %s written, %s read back", (int)e, end_type_name(cfg.end), end_type_name(have));
                    fail = std::string("FAIL flexpath-record-end ") + buf;
                }
                break;
            }
        }
    }
    back.free_all();
    em.I(fail.empty() ? "ok" : "differs");
    em.P(fail.empty() ? "ok" : fail);
}

// ------------------------------------------------------------------ user-callback styles
// How FlexPath::to_polygons uses the three callbacks (src/flexpath.cpp; typedefs and argument lists in include/gdstk/utils.hpp):
//  * end_function(first_point, first_direction, second_point, second_direction, data) is called twice per element.  First end:
//    (cap_l, dir_l, cap_r, dir_r) with cap_l/r = p0 +- n0 hw[0], dir_l pointing out of the path along its left edge and dir_r
//    into the path along its right edge.  Last end: (cap_r, dir_r, cap_l, dir_l), the mirror image (right edge out, left edge
//    in).  The returned points are the WHOLE cap, the two side points included if the callback wants them (nothing else is
//    appended), going from first_point to second_point.  The outline is right side forward, then the left side backwards, so
//    both caps appear in it in the order the callback returned them: the first cap at the very beginning, the last cap between
//    the last right-side and the last left-side point (to_polygons reverses it in place before appending it to the left side,
//    which is itself reversed when the two sides are merged).
//  * join_function(edge0_end, edge0_direction, edge1_start, edge1_direction, centre, width, data) is called at every vertex
//    without a fitting bend, for the right side when tr0 x tr1 >= 0 and for the left side when tl0 x tl1 <= 0 (outer side or
//    straight through), right side first; edge points are centre -+ n0 hw and centre -+ n1 hw.  The returned points are appended
//    to that side in travelling order and replace the corner (the two edge points included if wanted).
//  * bend_function(radius, initial_angle, final_angle, centre, data) is called twice at every vertex whose bend fits: for the
//    right side (radius R + d hw, d = +1 for a left turn) and then for the left side (radius R - d hw), R = bend_radius - d offset;
//    the angles are those of -+n0 and -+n1 seen from the centre, final - initial = signed turn.  The returned points are
//    appended to that side in travelling order (the tangent points included if wanted).
// The callbacks below record every call and return, from their arguments alone, the points a built-in style would have produced
// (or a polygonal cap with 1..7 points whose region equals that of a flush / extended cap).
struct FnCall {
    int type;  // 0 end, 1 join, 2 bend
    Vec2 p0, d0, p1, d1, c;
    double w, radius, ia, fa;
    std::vector<Vec2> ret;
    int side;    // assigned by the harness from the geometry: -1 right, +1 left
    int vertex;
    uint64_t lib_count;  // bend, own point count: how many points the library's Circular bend emits for the same arguments
};
struct FnData {
    std::vector<FnCall> log;
    int end_mode;  // 0 flush, 1 half-width, 2 extended, 3 polygonal cap with k[end] points
    int k[2];
    double ext[2];
    int end_calls;
    int join_mode;  // 0 natural, 1 miter, 2 bevel
    int bend_mode;  // 0 the library's own Curve::arc, 1 an arc polyline of our own point count
    double tol;
};
static Array<Vec2> fn_array(const std::vector<Vec2>& v) {
    Array<Vec2> r = {};
    r.ensure_slots(v.size() + 1);
    for (const Vec2& p : v) r.append(p);
    return r;
}
static Array<Vec2> fn_end(const Vec2 first, const Vec2 dfirst, const Vec2 second, const Vec2 dsecond, void* data) {
    FnData* D = (FnData*)data;
    int which = D->end_calls++ ? 1 : 0;
    FnCall c = {};
    c.type = 0;
    c.p0 = first; c.d0 = dfirst; c.p1 = second; c.d1 = dsecond;
    Vec2 across = first - second;
    double hw = 0.5 * across.length();
    across.normalize();
    // first end: first = left side, across = n0, ortho(n0) = -t0; last end: first = right side, across = -n0, ortho = t0
    Vec2 outw = across.ortho();
    std::vector<Vec2>& pts = c.ret;
    int mode = D->end_mode;
    double ext = mode == 1 ? hw : D->ext[which];
    if (mode == 0 || (mode == 3 && D->k[which] == 2)) {
        pts = {first, second};
    } else if (mode == 1 || mode == 2) {
        if (ext > 0) pts = {first, first + ext * outw, second + ext * outw, second};
        else pts = {first + ext * outw, second + ext * outw};
    } else {
        int k = D->k[which];
        if (k == 1) pts = {0.5 * (first + second) + ext * outw};
        else if (k == 3) pts = {first, 0.5 * (first + second), second};
        else {
            Vec2 c0 = first + ext * outw, c1 = second + ext * outw;
            pts.push_back(first);
            pts.push_back(c0);
            for (int j = 1; j <= k - 4; j++) pts.push_back(c0 + ((double)j / (double)(k - 3)) * (c1 - c0));
            pts.push_back(c1);
            pts.push_back(second);
        }
    }
    Array<Vec2> res = fn_array(c.ret);
    D->log.push_back(std::move(c));
    return res;
}
static Array<Vec2> fn_join(const Vec2 e0, const Vec2 d0, const Vec2 e1, const Vec2 d1, const Vec2 centre, double width, void* data) {
    FnData* D = (FnData*)data;
    FnCall c = {};
    c.type = 1;
    c.p0 = e0; c.d0 = d0; c.p1 = e1; c.d1 = d1; c.c = centre; c.w = width;
    double u0, u1;
    if (D->join_mode == 2) {
        c.ret = {e0, e1};
    } else if (D->join_mode == 1) {
        segments_intersection(e0, d0, e1, d1, u0, u1);
        c.ret = {0.5 * (e0 + u0 * d0 + e1 + u1 * d1)};
    } else {
        segments_intersection(e0, d0, e1, d1, u0, u1);
        const double half_width = 0.5 * width;
        u1 = -u1;
        if (u0 <= half_width && u1 <= half_width) c.ret = {0.5 * (e0 + u0 * d0 + e1 - u1 * d1)};
        else c.ret = {e0 + (u0 > half_width ? half_width : u0) * d0, e1 - (u1 > half_width ? half_width : u1) * d1};
    }
    Array<Vec2> res = fn_array(c.ret);
    D->log.push_back(std::move(c));
    return res;
}
static Array<Vec2> fn_bend(double radius, double ia, double fa, const Vec2 centre, void* data) {
    FnData* D = (FnData*)data;
    FnCall c = {};
    c.type = 2;
    c.radius = radius; c.ia = ia; c.fa = fa; c.c = centre;
    if (D->bend_mode == 0) {
        Curve cv = {};
        cv.tolerance = D->tol;
        cv.append(centre + Vec2{radius * cos(ia), radius * sin(ia)});
        cv.arc(radius, radius, ia, fa, 0);
        for (uint64_t i = 0; i < cv.point_array.count; i++) c.ret.push_back(cv.point_array[i]);
        cv.clear();
    } else {
        {
            Curve cv = {};
            cv.tolerance = D->tol;
            cv.append(centre + Vec2{radius * cos(ia), radius * sin(ia)});
            cv.arc(radius, radius, ia, fa, 0);
            c.lib_count = cv.point_array.count;
            cv.clear();
        }
        double cc = 1 - D->tol / radius;
        double a = cc < -1 ? M_PI : acos(cc);
        if (!(a > 1e-6)) a = 1e-6;
        double sweep = fa - ia;
        double ns = ceil(fabs(sweep) / (2 * a)) + 1;
        int nseg = ns < 1 ? 1 : (ns > 20000 ? 20000 : (int)ns);
        for (int j = 0; j <= nseg; j++) {
            double ang = ia + sweep * (double)j / (double)nseg;
            c.ret.push_back(centre + Vec2{radius * cos(ang), radius * sin(ang)});
        }
    }
    Array<Vec2> res = fn_array(c.ret);
    D->log.push_back(std::move(c));
    return res;
}

// displaced segments and corner points of one element, in long double from the implementation's arrays
struct Geo {
    std::vector<V> a, b, t, c;
    bool ill = false;  // a corner whose two displaced lines are almost, but not exactly, parallel (decision threshold 1e-8 in the C++)
};
static Geo displaced(const Array<Vec2>& sp, const Vec2* wo) {
    Geo G;
    uint64_t n = sp.count;
    G.a.resize(n - 1); G.b.resize(n - 1); G.t.resize(n - 1); G.c.resize(n);
    for (uint64_t i = 0; i + 1 < n; i++) {
        V s0 = {sp[i].x, sp[i].y}, s1 = {sp[i + 1].x, sp[i + 1].y};
        V nrm = unitl(orthol(s1 - s0));
        G.a[i] = s0 + nrm * (ld)wo[i].v;
        G.b[i] = s1 + nrm * (ld)wo[i + 1].v;
        G.t[i] = unitl(G.b[i] - G.a[i]);
    }
    G.c[0] = G.a[0];
    G.c[n - 1] = G.b[n - 2];
    for (uint64_t k = 1; k + 1 < n; k++) {
        ld den = crossl(G.t[k - 1], G.t[k]);
        if (fabsl(den) >= 1e-8L) {
            ld u0 = crossl(G.a[k] - G.b[k - 1], G.t[k]) / den;
            G.c[k] = G.b[k - 1] + G.t[k - 1] * u0;
        } else {
            G.c[k] = (G.b[k - 1] + G.a[k]) * 0.5L;
        }
        if (fabsl(den) > 1e-10L && fabsl(den) < 1e-6L) G.ill = true;
    }
    return G;
}

static std::string fmtv(V v) {
    char b[96];
    snprintf(b, sizeof b, "(%.12Lg, %.12Lg)", v.x, v.y);
    return b;
}
static std::string fmtd(ld v) {
    char b[48];
    snprintf(b, sizeof b, "%.12Lg", v);
    return b;
}
static inline V toV(Vec2 p) { return V{p.x, p.y}; }
static bool nearv(Vec2 got, V want, ld lim) { return std::isfinite(got.x) && std::isfinite(got.y) && fabsl((ld)got.x - want.x) <= lim && fabsl((ld)got.y - want.y) <= lim; }
static bool same_pt(Vec2 a, Vec2 b) { return a.x == b.x && a.y == b.y; }

static void fn_cases(Builder& B, const std::string& gid, uint64_t seed, uint64_t idx, Emit& em) {
    // a random stream of its own: the cases above are the same with and without this section
    Rng gf(seed * 1000003ULL + idx * 7919ULL + 424243ULL);
    FlexPath& fp = B.fp;
    const uint64_t n = B.n;
    const Array<Vec2>& sp = fp.spine.point_array;
    if (sp.count < 2) return;
    std::vector<FnData> D(n);
    std::vector<ElemCfg> twin(n);
    std::vector<char> fnjoin(n), fnbend(n), has_twin(n);
    static const JoinType tj[] = {JoinType::Natural, JoinType::Miter, JoinType::Bevel};
    for (uint64_t e = 0; e < n; e++) {
        const ElemCfg& cfg = B.el[e];
        FnData& d = D[e];
        twin[e] = cfg;
        d.tol = B.tol;
        d.end_calls = 0;
        int r = (int)gf.below(10);
        bool asan_bevel = false;
        d.k[0] = 1 + (int)gf.below(7);
        d.k[1] = 1 + (int)gf.below(7);
        d.ext[0] = 0.25 * (double)(1 + gf.below(8));
        d.ext[1] = 0.25 * (double)(1 + gf.below(8));
#if defined(__SANITIZE_ADDRESS__)
        // Curve::segment(Array) ends with last_ctrl = point_array[count - 2] (src/curve.cpp): when the callback's result is ONE point and the side
        // curve was still empty, that reads sixteen bytes in front of the buffer.  to_polygons gets there with a one-point end cap (first end; last
        // end of a two-point spine) and, far more often, with a one-point join (a mitre) at the first corner whose outer side is the left one: the
        // left side holds nothing before its first join.  The value is never used and a plain build reads the allocator's header, but an
        // address-sanitizer build aborts and the child takes every case of its path with it.  Under the sanitizer only one path in sixteen keeps
        // one-point results (and reports the crash); the others get two-point caps and bevel joins.
        if (idx % 16 != 5) {
            if (d.k[0] == 1) d.k[0] = 2;
            if (d.k[1] == 1) d.k[1] = 2;
            asan_bevel = true;
        }
#endif
        has_twin[e] = 1;
        if (r == 0) {
            d.end_mode = 0;
            twin[e].end = EndType::Flush;
        } else if (r == 1) {
            d.end_mode = 1;
            twin[e].end = EndType::HalfWidth;
        } else if (r <= 3) {
            d.end_mode = 2;
            if (cfg.end == EndType::Extended || gf.coin()) { d.ext[0] = cfg.ext.u; d.ext[1] = cfg.ext.v; }  // zero extensions among them
            twin[e].end = EndType::Extended;
            twin[e].ext = Vec2{d.ext[0], d.ext[1]};
        } else {
            d.end_mode = 3;
            twin[e].end = EndType::Extended;  // 2 and 3 points: the flush region (extension 0); 4 and more: the extended region
            twin[e].ext = Vec2{d.k[0] >= 4 ? d.ext[0] : 0, d.k[1] >= 4 ? d.ext[1] : 0};
            if (d.k[0] == 1 || d.k[1] == 1) has_twin[e] = 0;
        }
        fnjoin[e] = gf.chance(70);
        d.join_mode = (int)gf.below(3);
        if (asan_bevel) d.join_mode = 2;
        if (fnjoin[e]) twin[e].join = tj[d.join_mode];
        d.bend_mode = (int)gf.below(2);
        fnbend[e] = cfg.bend == BendType::Circular ? gf.chance(80) : gf.chance(30);
        if (fnbend[e]) twin[e].bend = BendType::Circular;
    }
    auto styles = [&](int what) {  // 0 restore, 1 built-in twin, 2 callbacks
        for (uint64_t e = 0; e < n; e++) {
            FlexPathElement& el = fp.elements[e];
            const ElemCfg& c = what == 0 ? B.el[e] : twin[e];
            el.join_type = c.join; el.end_type = c.end; el.end_extensions = c.ext; el.bend_type = c.bend;
            el.join_function = NULL; el.join_function_data = NULL;
            el.end_function = NULL; el.end_function_data = NULL;
            el.bend_function = NULL; el.bend_function_data = NULL;
            if (what == 2) {
                el.end_type = EndType::Function; el.end_function = fn_end; el.end_function_data = &D[e];
                if (fnjoin[e]) { el.join_type = JoinType::Function; el.join_function = fn_join; el.join_function_data = &D[e]; }
                if (fnbend[e]) { el.bend_type = BendType::Function; el.bend_function = fn_bend; el.bend_function_data = &D[e]; }
            }
        }
    };
    Array<Polygon*> pref = {}, pfn = {};
    styles(1);
    ErrorCode e1 = fp.to_polygons(false, 0, pref);
    styles(2);
    ErrorCode e2 = fp.to_polygons(false, 0, pfn);
    styles(0);
    auto release = [&](Array<Polygon*>& a) {
        for (uint64_t i = 0; i < a.count; i++) {
            a[i]->clear();
            free_allocation(a[i]);
        }
        a.clear();
    };
    if (e1 != ErrorCode::NoError || e2 != ErrorCode::NoError || pref.count != n || pfn.count != n) {
        em.K("fn", gid + ":all");
        em.I("error");
        em.P("FAIL flexpath-to_polygons-error to_polygons with callback styles (or their built-in twins) returned an error or the wrong number of polygons");
        release(pref);
        release(pfn);
        return;
    }
    static const char* endm[] = {"flush", "half-width", "extended", "poly"};
    static const char* joinm[] = {"natural", "miter", "bevel"};
    for (uint64_t e = 0; e < n; e++) {
        FnData& d = D[e];
        const Vec2* wo = fp.elements[e].half_width_and_offset.items;
        const uint64_t np = sp.count;
        Centre C = centre_line(sp, wo, twin[e].bend, twin[e].bend_radius, B.tol, false);
        if (C.borderline) {
            em.T("fn:skipped-borderline-bend");
            continue;
        }
        Geo G = displaced(sp, wo);
        std::vector<FnCall>& log = d.log;
        const Array<Vec2>& of = pfn[e]->point_array;
        const Array<Vec2>& orf = pref[e]->point_array;
        ld scale = 1;
        for (uint64_t i = 0; i < np; i++) scale = std::max(scale, std::max(fabsl((ld)sp[i].x), fabsl((ld)sp[i].y)));
        const ld plim = 1e-6L * scale, dlim = 1e-6L;
        std::string fail;
        char buf[64];
        snprintf(buf, sizeof buf, ";end=%s;k=%d,%d", endm[d.end_mode], d.end_mode == 3 ? d.k[0] : 0, d.end_mode == 3 ? d.k[1] : 0);
        std::string payload = gid + ":" + std::to_string(e) + buf + ";join=" + (fnjoin[e] ? joinm[d.join_mode] : "builtin") +
                              ";bend=" + (fnbend[e] ? (d.bend_mode ? "npts" : "arc") : "builtin");
        em.K("fn", payload);
        em.T("fn:end");
        em.T(std::string("fn:end-") + endm[d.end_mode]);
        if (d.end_mode == 3) {
            em.T("fn:end-first-k" + std::to_string(d.k[0]));
            em.T("fn:end-last-k" + std::to_string(d.k[1]));
        }
        if (fnjoin[e]) em.T(std::string("fn:join"));
        if (fnbend[e]) em.T(std::string("fn:bend"));

        // ---- (1) the calls and their arguments
        size_t nend = 0;
        for (auto& c : log) nend += c.type == 0;
        if (log.size() < 2 || nend != 2 || log.front().type != 0 || log.back().type != 0) {
            fail = "FAIL flexpath-fn-end-args the end function must be called once before and once after all joins and bends: " + std::to_string(nend) +
                   " end calls among " + std::to_string(log.size());
        }
        // location of a call: vertex k >= 1 with side -1 right / +1 left, or k = 0 first end, k = -1 last end (text built on failure only)
        auto loc = [&](int64_t k, int side) {
            std::string w = "element " + std::to_string(e);
            if (k == 0) return w + " first end";
            if (k < 0) return w + " last end";
            return w + " vertex " + std::to_string(k) + (side < 0 ? " right side" : " left side");
        };
        auto chk_pt = [&](const char* key, int64_t k, int side, const char* what, Vec2 got, V want) {
            if (fail.empty() && !nearv(got, want, plim))
                fail = std::string("FAIL ") + key + " " + loc(k, side) + ": " + what + " is " + fmtv(toV(got)) + ", the geometry gives " + fmtv(want);
        };
        auto chk_dir = [&](const char* key, int64_t k, int side, const char* what, Vec2 got, V want) {
            if (fail.empty() && !nearv(got, want, dlim))
                fail = std::string("FAIL ") + key + " " + loc(k, side) + ": " + what + " is " + fmtv(toV(got)) + ", the geometry gives " + fmtv(want);
        };
        bool args_checked = !G.ill;
        if (G.ill) em.T("fn:args-skipped-almost-parallel-corner");
        if (fail.empty() && args_checked) {
            const char* key = "flexpath-fn-end-args";
            {  // first end: (cap_l, dir_l, cap_r, dir_r)
                V n0 = orthol(G.t[0]);
                V capl = G.a[0] + n0 * (ld)wo[0].u, capr = G.a[0] - n0 * (ld)wo[0].u;
                V dl = unitl(capl - (G.b[0] + n0 * (ld)wo[1].u)), dr = unitl((G.b[0] - n0 * (ld)wo[1].u) - capr);
                chk_pt(key, 0, 0, "first point (left side)", log.front().p0, capl);
                chk_dir(key, 0, 0, "first direction (left edge, out of the path)", log.front().d0, dl);
                chk_pt(key, 0, 0, "second point (right side)", log.front().p1, capr);
                chk_dir(key, 0, 0, "second direction (right edge, into the path)", log.front().d1, dr);
            }
            {  // last end: (cap_r, dir_r, cap_l, dir_l)
                uint64_t s = np - 2, last = np - 1;
                V n0 = orthol(G.t[s]);
                V capl = G.b[s] + n0 * (ld)wo[last].u, capr = G.b[s] - n0 * (ld)wo[last].u;
                V dr = unitl(capr - (G.a[s] - n0 * (ld)wo[last - 1].u)), dl = unitl((G.a[s] + n0 * (ld)wo[last - 1].u) - capl);
                chk_pt(key, -1, 0, "first point (right side)", log.back().p0, capr);
                chk_dir(key, -1, 0, "first direction (right edge, out of the path)", log.back().d0, dr);
                chk_pt(key, -1, 0, "second point (left side)", log.back().p1, capl);
                chk_dir(key, -1, 0, "second direction (left edge, into the path)", log.back().d1, dl);
            }
        }
        int njoin = 0, nbend = 0, nbend_npts = 0, nstraight = 0;
        bool sides_known = false;
        if (fail.empty()) {
            size_t ptr = 1, endp = log.size() - 1;
            sides_known = true;
            for (uint64_t k = 1; k + 1 < np && fail.empty(); k++) {
                V t0 = G.t[k - 1], t1 = G.t[k], n0 = orthol(t0), n1 = orthol(t1), p = G.c[k];
                ld hwk = wo[k].u;
                ld cr = crossl(t0, t1), dirn = cr < 0 ? -1 : 1;
                ld theta = atan2l(fabsl(cr), dotl(t0, t1));
                bool bent = C.bent[k], lenient = false, straight_bend = false;
                if (theta < 1e-7L && twin[e].bend != BendType::None) {
                    // straight-through vertex: the sign of t0 x t1 (the bend direction, hence the centre-line radius bend_radius -+ offset and the
                    // fits test) is decided by the last bit in the C++; either way the arc has no length.  Take what the implementation did.
                    lenient = true;
                    bent = false;
                    if (fnbend[e] && ptr + 1 < endp && log[ptr].type == 2 && log[ptr + 1].type == 2 && same_pt(log[ptr].c, log[ptr + 1].c) &&
                        fabsl(0.5L * ((ld)log[ptr].radius + (ld)log[ptr + 1].radius) - lenl(toV(log[ptr].c) - p)) <= plim &&
                        fabsl(fabsl((ld)log[ptr].radius - (ld)log[ptr + 1].radius) - 2 * hwk) <= plim)
                        bent = straight_bend = true;
                }
                if (bent) {
                    if (!fnbend[e]) continue;
                    const char* key = "flexpath-fn-bend-args";
                    ld R = (ld)twin[e].bend_radius - dirn * (ld)wo[k].v;
                    ld L = R * tanl(theta / 2);
                    V ctr = (p - t0 * L) + n0 * (dirn * R);
                    V nstart = n0 * (-dirn);  // the arc starts at centre - d n0
                    ld ia = atan2l(nstart.y, nstart.x);
                    for (int side = -1; side <= 1 && fail.empty(); side += 2) {
                        if (ptr >= endp || log[ptr].type != 2) {
                            fail = std::string("FAIL ") + key + " " + loc(k, side) + ": the bend fits but the bend function was not called";
                            break;
                        }
                        FnCall& c = log[ptr];
                        ld rad = R - side * dirn * hwk;  // right: R + d hw, left: R - d hw
                        if (straight_bend) nstraight++;
                        if (args_checked && !straight_bend) {
                            if (!(fabsl((ld)c.radius - rad) <= plim))
                                fail = std::string("FAIL ") + key + " " + loc(k, side) + ": radius is " + fmtd(c.radius) + ", the geometry gives " + fmtd(rad) +
                                       " (centre-line radius " + fmtd(R) + ", half width " + fmtd(hwk) + ")";
                            chk_pt(key, k, side, "centre", c.c, ctr);
                            ld dia = fmodl(fabsl((ld)c.ia - ia), 2 * M_PIl);
                            if (dia > M_PIl) dia = 2 * M_PIl - dia;
                            if (fail.empty() && !(dia <= dlim))
                                fail = std::string("FAIL ") + key + " " + loc(k, side) + ": initial angle is " + fmtd(c.ia) + ", the geometry gives " + fmtd(ia);
                            if (fail.empty() && !(fabsl(((ld)c.fa - (ld)c.ia) - dirn * theta) <= dlim))
                                fail = std::string("FAIL ") + key + " " + loc(k, side) + ": final - initial angle is " + fmtd((ld)c.fa - (ld)c.ia) +
                                       ", the signed turn is " + fmtd(dirn * theta);
                        }
                        c.side = side;
                        c.vertex = (int)k;
                        nbend++;
                        if (d.bend_mode == 1) nbend_npts++;
                        ptr++;
                    }
                } else {
                    if (!fnjoin[e]) continue;
                    const char* key = "flexpath-fn-join-args";
                    for (int side = -1; side <= 1 && fail.empty(); side += 2) {
                        ld s = side;
                        V e0 = p + n0 * (s * hwk), e1 = p + n1 * (s * hwk);
                        V q0 = G.c[k - 1] + n0 * (s * (ld)wo[k - 1].u), q1 = G.c[k + 1] + n1 * (s * (ld)wo[k + 1].u);
                        V d0 = unitl(e0 - q0), d1 = unitl(q1 - e1);
                        ld cr = crossl(d0, d1);
                        // right side: outer when cr >= 0; left side: outer when cr <= 0
                        ld outer = side < 0 ? cr : -cr;
                        bool have = ptr < endp && log[ptr].type == 1;
                        bool here = have && nearv(log[ptr].c, p, plim) && (nearv(log[ptr].p0, e0, plim) || nearv(log[ptr].p1, e0, plim));
                        if (!args_checked) {
                            // the corner points are not trusted here: take the call if it is one of this side
                            if (have && nearv(log[ptr].p0, e0, 0.5L * hwk)) {
                                log[ptr].side = side; log[ptr].vertex = (int)k; njoin++; ptr++;
                            } else if (outer > 1e-6L) sides_known = false;
                            continue;
                        }
                        if (lenient) {
                            if (!(here && nearv(log[ptr].p0, e0, plim))) continue;
                        } else if (outer > 1e-8L) {
                            if (!have) {
                                fail = std::string("FAIL ") + key + " " + loc(k, side) + ": outer side of a corner without bend, but the join function was not called";
                                break;
                            }
                        } else if (outer < -1e-8L) {
                            if (here && nearv(log[ptr].p0, e0, plim)) fail = std::string("FAIL ") + key + " " + loc(k, side) + ": the join function was called for the inner side of the corner";
                            continue;
                        } else if (!here) continue;
                        FnCall& c = log[ptr];
                        chk_pt(key, k, side, "first point (end of the incoming edge)", c.p0, e0);
                        chk_dir(key, k, side, "first direction (incoming edge)", c.d0, d0);
                        chk_pt(key, k, side, "second point (start of the outgoing edge)", c.p1, e1);
                        chk_dir(key, k, side, "second direction (outgoing edge)", c.d1, d1);
                        chk_pt(key, k, side, "centre", c.c, p);
                        if (fail.empty() && !(fabsl((ld)c.w - 2 * hwk) <= 1e-9L * (1 + hwk)))
                            fail = std::string("FAIL ") + key + " " + loc(k, side) + ": width is " + fmtd(c.w) + ", the element is " + fmtd(2 * hwk) + " wide at this vertex";
                        c.side = side;
                        c.vertex = (int)k;
                        njoin++;
                        ptr++;
                    }
                }
            }
            if (fail.empty() && ptr != endp) {
                if (sides_known && args_checked)
                    fail = std::string("FAIL ") + (log[ptr].type == 1 ? "flexpath-fn-join-args" : "flexpath-fn-bend-args") + " element " + std::to_string(e) + ": call " +
                           std::to_string(ptr) + " of " + std::to_string(log.size()) + " (" + (log[ptr].type == 1 ? "join" : "bend") +
                           " function) has no vertex that asks for it";
                sides_known = false;
            }
        }
        em.Tn("fn:join-calls", njoin);
        em.Tn("fn:bend-calls", nbend);
        em.Tn("fn:bend-calls-at-straight-vertex", nstraight);

        // ---- (2) every returned point is in the outline, in the documented order and on the side the call was made for
        bool finite = true;
        for (uint64_t i = 0; i < of.count; i++) finite = finite && std::isfinite(of[i].x) && std::isfinite(of[i].y);
        for (uint64_t i = 0; i < orf.count; i++) finite = finite && std::isfinite(orf[i].x) && std::isfinite(orf[i].y);
        struct Run {
            const FnCall* call;
            bool rev;     // left side: the side runs backwards in the outline
            uint64_t at;  // where the run was found
            Vec2 pt(size_t j) const { return rev ? call->ret[call->ret.size() - 1 - j] : call->ret[j]; }
            size_t size() const { return call->ret.size(); }
        };
        std::vector<Run> runs;
        size_t icap1 = 0;
        auto run_name = [&](size_t ri) {
            const Run& r = runs[ri];
            if (r.call->type == 0) return std::string(ri == 0 ? "first" : "last") + " end cap (" + std::to_string(r.size()) + " points)";
            return std::string(r.call->type == 1 ? "join" : "bend") + " points of the " + (r.rev ? "left" : "right") + " side at vertex " + std::to_string(r.call->vertex) +
                   (r.rev ? " (reversed: the left side runs backwards)" : "");
        };
        if (fail.empty()) {
            runs.push_back(Run{&log.front(), false, 0});
            if (sides_known)
                for (size_t i = 1; i + 1 < log.size(); i++)
                    if (log[i].side < 0) runs.push_back(Run{&log[i], false, 0});
            icap1 = runs.size();
            runs.push_back(Run{&log.back(), false, 0});
            if (sides_known)
                for (size_t i = log.size() - 1; i-- > 1;)
                    if (log[i].side > 0) runs.push_back(Run{&log[i], true, 0});
            uint64_t pos = 0;
            for (size_t ri = 0; ri < runs.size() && fail.empty(); ri++) {
                Run& r = runs[ri];
                const size_t len = r.size();
                bool found = false;
                uint64_t at = 0;
                for (uint64_t s0 = pos; s0 + len <= of.count && !found; s0++) {
                    bool m = true;
                    for (size_t j = 0; j < len && m; j++) m = same_pt(of[s0 + j], r.pt(j));
                    if (m) { found = true; at = s0; }
                    if (ri == 0) break;  // the first cap opens the outline
                }
                if (!found) {
                    // say how the points do appear, if they do
                    std::string how;
                    for (uint64_t s0 = 0; s0 + len <= of.count && how.empty() && len > 1; s0++) {
                        bool m = true;
                        for (size_t j = 0; j < len && m; j++) m = same_pt(of[s0 + j], r.pt(len - 1 - j));
                        if (m) how = "; they appear in the opposite order at outline index " + std::to_string(s0);
                    }
                    if (how.empty()) {
                        size_t present = 0;
                        for (size_t j = 0; j < len; j++)
                            for (uint64_t i = 0; i < of.count; i++)
                                if (same_pt(of[i], r.pt(j))) { present++; break; }
                        how = "; " + std::to_string(present) + " of them are somewhere in the outline";
                    }
                    const char* key = r.call->type == 0 ? "flexpath-fn-end-order" : (r.call->type == 1 ? "flexpath-fn-join-splice" : "flexpath-fn-bend-splice");
                    fail = std::string("FAIL ") + key + " element " + std::to_string(e) + ": the " + run_name(ri) + " returned by the callback " +
                           (ri == 0 ? "do not open the outline in callback order" : (ri == icap1 ? "do not follow the right side in callback order" : "are not in the outline in travelling order after index " + std::to_string(pos))) + how;
                } else {
                    r.at = at;
                    pos = at + len;
                }
            }
        }
        // the direction handed to the end function against the outline edge that actually arrives at the first point (informational)
        if (fail.empty() && finite && of.count >= 3 && log.front().ret.size() >= 2) {
            V edge = unitl(toV(of[0]) - toV(of[of.count - 1]));
            if (fabsl(crossl(edge, toV(log.front().d0))) > 1e-6L) {
                em.T("fn:end-direction-differs-from-outline-edge");
                if (getenv("C07_DUMP"))
                    fprintf(stderr, " element %d first end: direction handed to the end function %s, the outline edge arriving at the first point runs along %s (sine of the angle %.3Lg)\n", (int)e,
                            fmtv(toV(log.front().d0)).c_str(), fmtv(edge).c_str(), crossl(edge, toV(log.front().d0)));
            }
        }

        // ---- (3) the outline against the outline of the built-in twin: the two vertex lists are walked side by side; outside the runs located
        // above (and inside the runs of joins and of bends drawn with the library's own arc) they must agree vertex for vertex; a polygonal
        // cap must agree once its extra collinear points are taken out; a bend drawn with our own point count must share its end points
        // with the built-in arc, whose points must lie on the circle the callback was asked for
        bool identical = (d.end_mode != 3 || ((d.k[0] == 2 || d.k[0] == 4) && (d.k[1] == 2 || d.k[1] == 4))) && nbend_npts == 0;
        if (fail.empty() && has_twin[e]) {
            std::string twin_name = std::string("the built-in twin (") + end_type_name(twin[e].end) + " / " + join_type_name(twin[e].join) + " / " + bend_type_name(twin[e].bend) + ")";
            const ld vlim = 1e-9L * scale;
            if (!finite) em.T("fn:twin-skipped-nan-outline");
            else if (nbend_npts && !sides_known) em.T("fn:twin-skipped-bend-runs-not-located");
            else {
                em.T(identical ? "fn:twin-identical-lists" : "fn:twin-modulo-extra-points");
                uint64_t i = 0, j = 0;
                auto same_at = [&](uint64_t fi, uint64_t rj) {
                    if (!fail.empty()) return;
                    if (rj >= orf.count)
                        fail = "FAIL flexpath-fn-twin element " + std::to_string(e) + ": " + twin_name + " has only " + std::to_string(orf.count) + " vertices, the callback outline (" +
                               std::to_string(of.count) + " vertices) asks for more at its index " + std::to_string(fi);
                    else if (!nearv(of[fi], toV(orf[rj]), vlim))
                        fail = "FAIL flexpath-fn-twin element " + std::to_string(e) + ": outline vertex " + std::to_string(fi) + " is " + fmtv(toV(of[fi])) + ", " + twin_name + " has " +
                               fmtv(toV(orf[rj])) + " at index " + std::to_string(rj);
                };
                for (size_t ri = 0; ri <= runs.size() && fail.empty(); ri++) {
                    uint64_t stop = ri < runs.size() ? runs[ri].at : of.count;
                    for (; i < stop && fail.empty(); i++, j++) same_at(i, j);
                    if (ri == runs.size() || !fail.empty()) break;
                    const Run& r = runs[ri];
                    uint64_t len = r.size();
                    if (r.call->type == 0 && d.end_mode == 3) {
                        // 3 points: the middle one is extra; 5 and more: those between the two far corners are extra
                        for (uint64_t q = 0; q < len && fail.empty(); q++) {
                            bool extra = len == 3 ? q == 1 : (len >= 5 && q >= 2 && q + 2 < len);
                            if (!extra) same_at(i + q, j++);
                        }
                        i += len;
                    } else if (r.call->type == 2 && d.bend_mode == 1) {
                        uint64_t lc = r.call->lib_count;
                        if (j + lc > orf.count) {
                            fail = "FAIL flexpath-fn-twin element " + std::to_string(e) + ": " + twin_name + " ends inside the bend at vertex " + std::to_string(r.call->vertex);
                            break;
                        }
                        if (!nearv(of[i], toV(orf[j]), vlim) || !nearv(of[i + len - 1], toV(orf[j + lc - 1]), vlim))
                            fail = "FAIL flexpath-fn-twin element " + std::to_string(e) + ": the bend at vertex " + std::to_string(r.call->vertex) + " runs from " + fmtv(toV(of[i])) + " to " +
                                   fmtv(toV(of[i + len - 1])) + ", in " + twin_name + " from " + fmtv(toV(orf[j])) + " to " + fmtv(toV(orf[j + lc - 1]));
                        for (uint64_t q = 0; q < lc && fail.empty(); q++)
                            if (fabsl(lenl(toV(orf[j + q]) - toV(r.call->c)) - (ld)r.call->radius) > vlim)
                                fail = "FAIL flexpath-fn-twin element " + std::to_string(e) + ": vertex " + std::to_string(j + q) + " of " + twin_name + " is not on the circle the bend function was asked for at vertex " +
                                       std::to_string(r.call->vertex);
                        i += len;
                        j += lc;
                    }
                    // other runs (caps with the twin's own points, joins, library arcs): vertex for vertex, by the loop above
                }
                if (fail.empty() && j != orf.count)
                    fail = "FAIL flexpath-fn-twin element " + std::to_string(e) + ": " + twin_name + " has " + std::to_string(orf.count) + " vertices, the callback outline accounts for " + std::to_string(j);
            }
        } else if (fail.empty()) em.T("fn:no-twin-one-point-cap");
        snprintf(buf, sizeof buf, "calls end 2 join %d bend %d outline %llu", njoin, nbend, (unsigned long long)of.count);
        em.I(buf);
        em.P(fail.empty() ? "ok" : fail);

        // ---- (4) the callback outline through the exact oracle, with the expectations of the built-in twin
        if (fail.empty() && has_twin[e] && (identical ? gf.chance(3) : gf.chance(20))) {
            ElemCfg keep = B.el[e];
            Rng* gs = B.g;
            B.el[e] = twin[e];
            B.g = &gf;
            region_case(B, e, gid + ":fn", pfn[e], em, "fn:");
            B.g = gs;
            B.el[e] = keep;
        }
    }
    release(pref);
    release(pfn);
}

// ------------------------------------------------------------------ one path
static const int NDIRECTED = 5;

static void run_path(uint64_t seed, uint64_t idx, const std::string& outdir, FILE* o) {
    Emit em{o};
    Rng g(seed * 1000003ULL + idx * 7919ULL + 17);
    Builder B;
    B.g = &g;
    B.em = &em;
    memset(&B.fp, 0, sizeof B.fp);
    char gidb[64];
    snprintf(gidb, sizeof gidb, "g=%llu:%llu", (unsigned long long)seed, (unsigned long long)idx);
    std::string gid = gidb;
    int family;  // 0 polyline, 1 curved, 2 mixed
    bool directed = idx < (uint64_t)NDIRECTED;
    B.tol = g.chance(25) ? 0.001 : 0.01;

    static const JoinType joins[] = {JoinType::Natural, JoinType::Miter, JoinType::Bevel, JoinType::Round, JoinType::Smooth};
    static const EndType ends[] = {EndType::Flush, EndType::Round, EndType::HalfWidth, EndType::Extended, EndType::Smooth};

    if (directed) {
        // F13: three segments, width tapering 4 -> 1, bend radius between the half widths at vertex 1 and 2
        B.n = 1;
        ElemCfg c = {};
        c.wA = 4; c.oA = 0; c.wB = 1; c.oB = 0;
        c.join = JoinType::Natural;
        c.end = EndType::Flush;
        c.bend = BendType::Circular;
        B.tol = 0.01;
        // half widths at the vertices 0..4: 2, 1.625, 1.25, 0.875, 0.5; to_polygons bends where radius > hw[i],
        // element_center where radius > hw[1]
        if (idx == 0) c.bend_radius = 1.0;        // outline bends at vertex 3 only, centre line nowhere
        else if (idx == 1) c.bend_radius = 1.2;
        else if (idx == 2) { c.wA = 1; c.wB = 4; c.bend_radius = 1.2; }
        else if (idx == 3) c.bend_radius = 3;     // control: fits everywhere in both functions
        else {                                    // smooth join at straight-through vertices (side points 1 ulp apart)
            c.wA = c.wB = 2;
            c.oA = c.oB = -1.75;
            c.join = JoinType::Smooth;
            c.bend = BendType::None;
        }
        B.el.push_back(c);
        family = 0;
    } else {
        B.n = 1 + g.below(4);
        family = (int)g.below(10) < 6 ? 0 : ((int)g.below(10) < 7 ? 1 : 2);
        double w0 = 0.25 * (double)(1 + g.below(8));
        double gap = 0.25 * (double)(1 + g.below(4));
        for (uint64_t e = 0; e < B.n; e++) {
            ElemCfg c = {};
            c.wA = g.chance(70) ? w0 : 0.25 * (double)(1 + g.below(8));
            double sep = w0 + gap + (B.n > 1 ? 0.5 * w0 : 0);
            c.oA = B.n == 1 ? (g.chance(50) ? 0 : 0.25 * (double)g.range(-6, 6)) : sep * ((double)e - 0.5 * (double)(B.n - 1));
            static const double wf[] = {0.5, 0.75, 1.5, 2.0, 1.0};
            c.wB = c.wA * wf[g.below(5)];
            c.oB = g.chance(50) ? c.oA : c.oA * (g.coin() ? 0.5 : 1.5) + (B.n == 1 && g.chance(30) ? 0.5 : 0);
            c.join = joins[g.below(5)];
            c.end = ends[g.below(5)];
            c.ext = Vec2{0.25 * (double)g.below(9), 0.25 * (double)g.below(9)};
            c.bend = (family == 0 ? g.chance(45) : g.chance(10)) ? BendType::Circular : BendType::None;
            B.el.push_back(c);
        }
    }
    B.family = family;
    B.Wmax = 0;
    for (auto& c : B.el) {
        B.Wmax = std::max(B.Wmax, std::max(0.5 * c.wA, 0.5 * c.wB) + std::max(fabs(c.oA), fabs(c.oB)));
    }
    if (!directed)
        for (auto& c : B.el) {
            double hwmax = 0.5 * std::max(c.wA, c.wB), hwmin = 0.5 * std::min(c.wA, c.wB);
            int r = (int)g.below(5);
            if (r == 0) c.bend_radius = 0.4 * hwmin;                         // never fits (radius <= half width)
            else if (r == 1) c.bend_radius = 0.5 * (hwmin + hwmax) + 1e-3;   // between the half widths (F13 when tapering)
            else if (r == 2) c.bend_radius = 40 * B.Wmax;                    // too long for the segments
            else c.bend_radius = (1.2 + 0.1 * (double)g.below(12)) * B.Wmax; // usually fits
        }

    FlexPath& fp = B.fp;
    fp.num_elements = B.n;
    fp.elements = (FlexPathElement*)allocate_clear(B.n * sizeof(FlexPathElement));
    std::vector<double> w, off;
    std::vector<Tag> tags;
    for (uint64_t e = 0; e < B.n; e++) {
        w.push_back(B.el[e].wA);
        off.push_back(B.el[e].oA);
        tags.push_back(make_tag((uint32_t)e, 0));
    }
    Vec2 p0 = Vec2{0.125 * (double)g.range(-40, 40), 0.125 * (double)g.range(-40, 40)};
    // the (count, width, separation) form of init: allowed when the elements have one width and evenly spaced offsets centred on the
    // spine; it allocates the elements itself and gives them one tag.  What it stores is compared with the request below.
    bool uniform = B.n > 1;
    for (uint64_t e = 0; e < B.n && uniform; e++)
        uniform = w[e] == w[0] && fabs(off[e] - (off[1] - off[0]) * ((double)e - 0.5 * (double)(B.n - 1))) < 1e-12;
    if (B.n == 1 && g.coin()) fp.init(p0, w[0], off[0], B.tol, tags[0]);
    else if (uniform && g.coin()) {
        free_allocation(fp.elements);
        fp.elements = NULL;
        fp.init(p0, B.n, w[0], off[1] - off[0], B.tol, tags[0]);
        em.T("init-by-separation");
    } else fp.init(p0, w.data(), off.data(), B.tol, tags.data());
    // construction oracle for init: one (half width, offset) entry per element, as requested
    {
        std::string init_fail;
        for (uint64_t e = 0; e < B.n && init_fail.empty(); e++) {
            const Array<Vec2>& hwo = fp.elements[e].half_width_and_offset;
            if (hwo.count != 1 || fabs(hwo[0].u - 0.5 * w[e]) > 1e-12 * (1 + fabs(w[e])) || fabs(hwo[0].v - off[e]) > 1e-12 * (1 + fabs(off[e]))) {
                char ib[200];
                snprintf(ib, sizeof ib, "element %d starts with half width %.12g and offset %.12g, init was asked for %.12g and %.12g", (int)e,
                         hwo.count ? hwo[0].u : -1.0, hwo.count ? hwo[0].v : -1.0, 0.5 * w[e], off[e]);
                init_fail = ib;
            }
        }
        em.K("construct", gid + ";init");
        em.I("init");
        em.P(init_fail.empty() ? "ok" : "FAIL flexpath-construction " + init_fail);
    }
    for (uint64_t e = 0; e < B.n; e++) {
        fp.elements[e].join_type = B.el[e].join;
        fp.elements[e].end_type = B.el[e].end;
        fp.elements[e].end_extensions = B.el[e].ext;
        fp.elements[e].bend_type = B.el[e].bend;
        fp.elements[e].bend_radius = B.el[e].bend_radius;
    }
    B.counts_payload = std::to_string(B.n);
    B.heading = directed ? 0 : ((double)g.range(-180, 180)) * M_PI / 180;

    if (directed) {
        // (0,0) -> (10,0) -> (10,10) -> (20,10) -> (20,20), width tapering over the whole path
        fp.spine.point_array[0] = Vec2{0, 0};
        std::vector<Vec2> pts = {Vec2{10, 0}, Vec2{10, 10}, Vec2{20, 10}, Vec2{20, 20}};
        if (idx == 4) {
            fp.spine.point_array[0] = Vec2{0, 8.219188};
            pts = {Vec2{-72.413605, 8.219188}, Vec2{-145.178605, 8.219188}, Vec2{-203.70298, 8.219188}};
        }
        Array<Vec2> arr = {};
        arr.items = pts.data();
        arr.count = pts.size();
        Builder::Before b = B.before();
        Builder::WO wo = B.pick_wo(false);
        wo.ws = 2;
        wo.os = 0;
        wo.w.assign(1, B.el[0].wB);
        fp.segment(arr, wo.w.data(), NULL, false);
        B.after(W_SA, b, wo, true);
    } else {
        // a first straight piece defines the direction (Curve::last_ctrl) for turn / smooth calls
        if (family != 0) {
            Builder::Before b = B.before();
            Builder::WO wo = B.pick_wo(false);
            Vec2 d = step_vec(B.heading, 5 * B.Wmax);
            fp.segment(d, NULL, NULL, true);
            B.after(W_S, b, wo, true);
        }
        int ncalls = 1 + (int)g.below(family == 0 ? 4 : 3);
        for (int i = 0; i < ncalls; i++) {
            if (family == 0 || (family == 2 && g.coin())) call_polyline(B);
            else call_curved(B);
        }
        // a point closer than the tolerance to its predecessor: remove_overlapping_points drops it (and
        // its width / offset entries) at the start of to_polygons
        if (g.chance(20)) {
            Builder::Before b = B.before();
            Builder::WO wo = B.pick_wo(false);
            Vec2 d = step_vec(B.heading, 0.4 * B.tol);
            fp.segment(d, NULL, NULL, true);
            B.after(W_S, b, wo, true);
            em.T("with-overlapping-point");
            if (g.coin()) {
                Builder::Before b2 = B.before();
                Builder::WO wo2 = B.pick_wo(true);
                Vec2 d2 = step_vec(B.heading, 5 * B.Wmax);
                fp.segment(d2, wo2.ws ? wo2.w.data() : NULL, wo2.os ? wo2.o.data() : NULL, true);
                B.after(W_S, b2, wo2, true);
            }
        }
        // calls that append nothing keep the invariant too
        if (g.chance(20)) {
            Builder::Before b = B.before();
            Builder::WO wo = B.pick_wo(true);
            Array<Vec2> none = {};
            fp.segment(none, wo.ws ? wo.w.data() : NULL, wo.os ? wo.o.data() : NULL, true);
            B.after(W_SA, b, wo, true);
        }
    }

    bool spine_nan = false;
    for (uint64_t i = 0; i < fp.spine.point_array.count; i++)
        if (!std::isfinite(fp.spine.point_array[i].x) || !std::isfinite(fp.spine.point_array[i].y)) spine_nan = true;
    // counts case
    em.K("counts", gid + ";" + B.counts_payload);
    em.I(B.counts_impl);
    if (B.counts_fail) em.P("FAIL flexpath-counts " + B.fail_text);
    else if (B.linear_fail) em.P("FAIL flexpath-fill-linear " + B.fail_text);
    else em.P("ok");
    em.K("construct", gid);
    em.I(std::to_string(B.spine_checked) + " checks");
    em.P(B.spine_fail.empty() ? "ok" : "FAIL flexpath-construction " + B.spine_fail);
    em.T(family == 0 ? "family-polyline" : (family == 1 ? "family-curved" : "family-mixed"));
    em.T("elements-" + std::to_string(B.n));
    if (B.counts_fail) return;  // the arrays are inconsistent: to_polygons would read out of bounds
    if (spine_nan) {
        // the curve sampler of C15 emitted a NaN vertex (cusp in a smooth continuation, DESIGN F11)
        em.K("spine", gid);
        em.I("nan");
        em.P("FAIL Curve::sampler:cusp-nan the spine produced by the curve calls holds a NaN vertex (curve sampler at a cusp, C15 / F11); outline not checked");
        return;
    }

    // two bends that compete for one segment: now and then the radius is re-chosen so that the first of two consecutive corners
    // takes three quarters of the segment they share (the second bend then no longer fits in what is left)
    if (!directed && family == 0 && fp.spine.point_array.count >= 4 && g.chance(25)) {
        const Array<Vec2>& sp = fp.spine.point_array;
        for (uint64_t e = 0; e < B.n; e++) {
            if (B.el[e].bend != BendType::Circular) continue;
            uint64_t k = 1 + g.below(sp.count - 3);  // corners k and k + 1 share the segment k -> k + 1
            Vec2 d0 = sp[k] - sp[k - 1], d1 = sp[k + 1] - sp[k];
            double l0 = d0.length(), l1 = d1.length();
            if (l0 <= 0 || l1 <= 0) continue;
            double th = fabs(atan2(d0.cross(d1), d0.inner(d1)));
            if (th < 0.2 || th > 2.6) continue;
            double R = 0.75 * l1 / tan(th / 2);
            if (R * tan(th / 2) >= l0 || R <= 1.1 * B.Wmax) continue;
            B.el[e].bend_radius = R;
            fp.elements[e].bend_radius = R;
            em.T("bend-radius-competing");
        }
    }
    // outlines (to_polygons removes overlapping points first: the spine arrays are read afterwards)
    Array<Polygon*> polys = {};
    ErrorCode err = fp.to_polygons(false, 0, polys);
    bool ok_counts = true;
    for (uint64_t e = 0; e < B.n; e++)
        if (fp.elements[e].half_width_and_offset.count != fp.spine.point_array.count) ok_counts = false;
    if (!ok_counts) {
        em.K("counts", gid + ";after-to_polygons");
        em.I("mismatch");
        em.P("FAIL flexpath-counts after to_polygons (remove_overlapping_points) an element count differs from the spine count");
        return;
    }
    if (err != ErrorCode::NoError || polys.count != B.n) {
        em.K("region", gid + ":all");
        em.I("error");
        em.P("FAIL flexpath-to_polygons-error to_polygons returned an error or the wrong number of polygons");
        return;
    }
    if (getenv("C07_DUMP")) {
        fprintf(stderr, "path %s tol %g elements %d\n", gid.c_str(), B.tol, (int)B.n);
        for (uint64_t i = 0; i < fp.spine.point_array.count; i++) {
            fprintf(stderr, " %3d (%.6f, %.6f)", (int)i, fp.spine.point_array[i].x, fp.spine.point_array[i].y);
            for (uint64_t e = 0; e < B.n; e++) fprintf(stderr, "  hw %.5f off %.5f", fp.elements[e].half_width_and_offset[i].u, fp.elements[e].half_width_and_offset[i].v);
            fprintf(stderr, "\n");
        }
        for (uint64_t e = 0; e < B.n; e++)
            fprintf(stderr, " element %d join %s end %s ext (%g,%g) bend %s radius %g\n", (int)e, join_type_name(B.el[e].join), end_type_name(B.el[e].end),
                    B.el[e].ext.u, B.el[e].ext.v, bend_type_name(B.el[e].bend), B.el[e].bend_radius);
    }
    for (uint64_t e = 0; e < B.n; e++) {
        region_case(B, e, gid, polys[e], em);
        center_case(B, e, gid, em);
    }
    for (uint64_t e = 0; e < polys.count; e++) {
        polys[e]->clear();
        free_allocation(polys[e]);
    }
    polys.clear();
    fn_cases(B, gid, seed, idx, em);
    if (directed || g.chance(50)) {
        record_case(B, false, gid, outdir, em);
        record_case(B, true, gid, outdir, em);
    }
}

// ------------------------------------------------------------------ parent
// VERIF_KINDS (comma list) restricts the case kinds that are recorded (used when another property's check runs this
// harness for its PATH-record cases only); crashes are always recorded
static bool kind_wanted(const std::string& kind) {
    static int init = 0;
    static std::vector<std::string> want;
    if (!init) {
        init = 1;
        if (const char* k = getenv("VERIF_KINDS")) {
            std::string s(k);
            size_t p = 0;
            while (p <= s.size()) {
                size_t e = s.find(',', p);
                if (e == std::string::npos) e = s.size();
                if (e > p) want.push_back(s.substr(p, e - p));
                p = e + 1;
            }
        }
    }
    if (want.empty()) return true;
    for (auto& w : want)
        if (w == kind) return true;
    return false;
}
static void absorb(Out& out, const std::string& res, const std::string& gid) {
    if (res.compare(0, 4, "HANG") == 0 || res.compare(0, 5, "CRASH") == 0 || res == "PIPEFAIL") {
        std::string id = out.add("crash", gid);
        out.I(id, res);
        out.P(id, "FAIL flexpath-crash the construction / to_polygons / record sequence ended with " + res);
        return;
    }
    bool skip = false;
    std::string id;
    size_t pos = 0;
    while (pos < res.size()) {
        size_t nl = res.find('\n', pos);
        if (nl == std::string::npos) nl = res.size();
        std::string line = res.substr(pos, nl - pos);
        pos = nl + 1;
        if (line.size() < 2) continue;
        char tag = line[0];
        std::string rest = line.substr(2);
        if (tag == 'K') {
            size_t t = rest.find('\t');
            skip = !kind_wanted(rest.substr(0, t));
            if (skip) continue;
            id = out.add(rest.substr(0, t), t == std::string::npos ? "" : rest.substr(t + 1));
        } else if (skip) {
            continue;
        } else if (tag == 'I') {
            out.I(id, rest);
        } else if (tag == 'P') {
            out.P(id, rest);
        } else if (tag == 'T') {
            size_t t = rest.find('\t');
            if (t == std::string::npos) out.count(rest);
            else out.count(rest.substr(0, t), atol(rest.c_str() + t + 1));
        }
    }
}

static bool parse_gid(const std::string& payload, uint64_t& seed, uint64_t& idx) {
    size_t p = payload.find("g=");
    if (p == std::string::npos) return false;
    unsigned long long a = 0, b = 0;
    if (sscanf(payload.c_str() + p, "g=%llu:%llu", &a, &b) != 2) return false;
    seed = a;
    idx = b;
    return true;
}

int main(int argc, char** argv) {
    if (argc < 5) {
        fprintf(stderr, "usage: %s seed tier outdir corpusdir [replayfile]\n", argv[0]);
        return 2;
    }
    uint64_t seed = strtoull(argv[1], NULL, 10);
    std::string tier = argv[2], outdir = argv[3];
    set_error_logger(NULL);
    Out out;
    out.open(argv[3]);
    auto one = [&](uint64_t sd, uint64_t idx) {
        char gidb[64];
        snprintf(gidb, sizeof gidb, "g=%llu:%llu", (unsigned long long)sd, (unsigned long long)idx);
        std::string res = in_child([&](FILE* o) { run_path(sd, idx, outdir, o); }, 60);
        absorb(out, res, gidb);
    };
    if (argc > 5) {
        std::string kind, payload;
        uint64_t sd, idx;
        if (load_replay(argv[5], kind, payload) && parse_gid(payload, sd, idx)) one(sd, idx);
        out.close();
        return 0;
    }
    for (auto& kp : load_corpus(argv[4])) {
        uint64_t sd, idx;
        if (parse_gid(kp.second, sd, idx)) one(sd, idx);
    }
    uint64_t npaths = tier == "thorough" ? 3000 : 160;
    for (uint64_t idx = 0; idx < npaths; idx++) one(seed, idx);
    out.close();
    return 0;
}
