// Random gdstk libraries on the integer grid (unit 1e-6, precision 1e-9: scaling 1000), used by the
// GDSII harnesses (C01, C03, C17, C18).  Coordinates are multiples of 1e-3 user units written as
// k * 0.001?  No: to keep double arithmetic exact the library uses unit = 1e-6, precision = 1e-6/1024
// is not decimal... we use unit = 1, precision = 1/1024 (dyadic) unless stated, so that
// lround(coord * scaling) is exact for coordinates k/1024.
#pragma once
#include <gdstk/gdstk.hpp>
#include "common.hpp"
using namespace gdstk;

struct GenOpts {
    bool with_paths = true, with_labels = true, with_refs = true, with_props = true, with_reps = true;
    int max_cells = 4, max_elems = 5;
    int64_t coord_range = 4000;  // in grid units
    double grid = 1.0 / 1024;    // one grid unit in user units
    bool offgrid = false;        // add quarter-grid fractions to origins / offsets (rounding of sums)
};

static inline double qfrac(Rng& g, const GenOpts& o) { return o.offgrid ? (double)g.below(4) * 0.25 : 0.0; }

static inline char* dupstr(const std::string& s) { return copy_string(s.c_str(), NULL); }

static inline std::string rand_name(Rng& g, int maxlen = 9) {
    static const char* al = "ABCDEFGHIJKLMNOPQRSTUVWXYZabcdefghijklmnopqrstuvwxyz0123456789_";
    int n = 1 + (int)g.below(maxlen);
    std::string s;
    for (int i = 0; i < n; i++) s += al[g.below(63)];
    return s;
}

// a general (non-GDSII) property, or one that carries the reserved name with another value shape: GDSII cannot hold either, the
// writer has to step over them wherever they sit in the list (the attribute properties before AND after them must be written)
static inline void add_general_prop(Rng& g, Property*& props) {
    std::string nm = "U_" + rand_name(g, 5);
    switch (g.below(5)) {
        case 0: set_property(props, nm.c_str(), (uint64_t)g.below(1000), true); break;
        case 1: set_property(props, nm.c_str(), (int64_t)g.range(-500, 500), true); break;
        case 2: set_property(props, nm.c_str(), 0.25 * (double)g.range(-40, 40), true); break;
        case 3: set_property(props, nm.c_str(), rand_name(g, 6).c_str(), true); break;
        default:  // reserved name, but not the (attribute number, string) shape of a GDSII attribute
            if (g.coin()) set_property(props, "S_GDS_PROPERTY", (uint64_t)(1 + g.below(120)), true);
            else set_property(props, "S_GDS_PROPERTY", rand_name(g, 6).c_str(), true);
    }
}

static inline void add_gds_props(Rng& g, Property*& props) {
    int n = (int)g.below(3);
    bool mixed = g.chance(35);
    if (mixed && g.coin()) add_general_prop(g, props);
    for (int i = 0; i < n; i++) {
        std::string v = rand_name(g, 7);
        set_gds_property(props, (uint16_t)(1 + g.below(120)), v.c_str());
        if (mixed && g.coin()) add_general_prop(g, props);
    }
}

static inline Polygon* gen_polygon(Rng& g, const GenOpts& o) {
    Polygon* p = (Polygon*)allocate_clear(sizeof(Polygon));
    p->tag = make_tag((uint32_t)g.below(60), (uint32_t)g.below(60));
    int n = 3 + (int)g.below(7);
    int64_t cx = g.range(-o.coord_range, o.coord_range), cy = g.range(-o.coord_range, o.coord_range);
    if (g.chance(30)) {  // rectangle
        int64_t w = 1 + (int64_t)g.below(500), h = 1 + (int64_t)g.below(500);
        p->point_array.append(Vec2{cx * o.grid, cy * o.grid});
        p->point_array.append(Vec2{(cx + w) * o.grid, cy * o.grid});
        p->point_array.append(Vec2{(cx + w) * o.grid, (cy + h) * o.grid});
        p->point_array.append(Vec2{cx * o.grid, (cy + h) * o.grid});
    } else {
        for (int i = 0; i < n; i++) {
            int64_t x = cx + g.range(-300, 300), y = cy + g.range(-300, 300);
            p->point_array.append(Vec2{(x + qfrac(g, o)) * o.grid, (y + qfrac(g, o)) * o.grid});
        }
        // avoid first == last (the reader would drop the last vertex: GDSII closes polygons)
        Array<Vec2>& pa = p->point_array;
        // also after rounding to the grid (off-grid vertices): the reader drops a closing duplicate
        if (llround(pa[0].x / o.grid) == llround(pa[pa.count - 1].x / o.grid) &&
            llround(pa[0].y / o.grid) == llround(pa[pa.count - 1].y / o.grid))
            pa[pa.count - 1].x += 2 * o.grid;
    }
    return p;
}

static inline void gen_repetition(Rng& g, const GenOpts& o, Repetition& r, bool allow_all = true) {
    memset(&r, 0, sizeof r);
    switch (g.below(allow_all ? 5 : 2)) {
        case 0:
            r.type = RepetitionType::Rectangular;
            r.columns = 1 + g.below(3);
            r.rows = 1 + g.below(3);
            r.spacing = Vec2{(double)g.range(-40, 40) * 16 * o.grid, (double)g.range(-40, 40) * 16 * o.grid};
            break;
        case 1:
            r.type = RepetitionType::Regular;
            r.columns = 1 + g.below(3);
            r.rows = 1 + g.below(3);
            r.v1 = Vec2{(double)g.range(-40, 40) * 16 * o.grid, (double)g.range(-40, 40) * 16 * o.grid};
            r.v2 = Vec2{(double)g.range(-40, 40) * 16 * o.grid, (double)g.range(-40, 40) * 16 * o.grid};
            break;
        case 2: {
            r.type = RepetitionType::Explicit;
            int n = 1 + (int)g.below(4);
            for (int i = 0; i < n; i++)
                r.offsets.append(Vec2{((double)g.range(-400, 400) + qfrac(g, o)) * o.grid, ((double)g.range(-400, 400) + qfrac(g, o)) * o.grid});
        } break;
        case 3: {
            r.type = RepetitionType::ExplicitX;
            int n = 1 + (int)g.below(4);
            for (int i = 0; i < n; i++) r.coords.append(((double)g.range(-400, 400) + qfrac(g, o)) * o.grid);
        } break;
        default: {
            r.type = RepetitionType::ExplicitY;
            int n = 1 + (int)g.below(4);
            for (int i = 0; i < n; i++) r.coords.append((double)g.range(-400, 400) * o.grid);
        }
    }
}

static inline FlexPath* gen_simple_path(Rng& g, const GenOpts& o) {
    FlexPath* fp = (FlexPath*)allocate_clear(sizeof(FlexPath));
    fp->num_elements = 1;
    fp->elements = (FlexPathElement*)allocate_clear(sizeof(FlexPathElement));
    int64_t x = g.range(-o.coord_range, o.coord_range), y = g.range(-o.coord_range, o.coord_range);
    double width = (double)g.below(80) * o.grid;  // odd widths too: the writer must round the FULL width, not twice the half width
    fp->init(Vec2{x * o.grid, y * o.grid}, width, 0, 1e-9, make_tag((uint32_t)g.below(60), (uint32_t)g.below(60)));
    fp->simple_path = true;
    fp->scale_width = width == 0 ? true : g.coin();  // a zero-width path re-loads with scale_width = true
    int n = 1 + (int)g.below(5);
    for (int i = 0; i < n; i++) {
        // Manhattan-ish steps of at least one grid unit so that no point is dropped as overlapping
        int64_t dx = g.range(-200, 200), dy = g.range(-200, 200);
        if (dx == 0 && dy == 0) dx = 7;
        x += dx;
        y += dy;
        fp->segment(Vec2{x * o.grid, y * o.grid}, NULL, NULL, false);
    }
    switch (g.below(4)) {
        case 0: fp->elements[0].end_type = EndType::Flush; break;
        case 1: fp->elements[0].end_type = EndType::Round; break;
        case 2: fp->elements[0].end_type = EndType::HalfWidth; break;
        default:
            fp->elements[0].end_type = EndType::Extended;
            fp->elements[0].end_extensions = Vec2{(double)g.range(-30, 30) * o.grid, (double)g.range(-30, 30) * o.grid};
    }
    return fp;
}

static inline Label* gen_label(Rng& g, const GenOpts& o) {
    Label* l = (Label*)allocate_clear(sizeof(Label));
    l->init(rand_name(g, 12).c_str());
    l->tag = make_tag((uint32_t)g.below(60), (uint32_t)g.below(60));
    l->origin = Vec2{((double)g.range(-o.coord_range, o.coord_range) + qfrac(g, o)) * o.grid, ((double)g.range(-o.coord_range, o.coord_range) + qfrac(g, o)) * o.grid};
    static const Anchor as[] = {Anchor::NW, Anchor::N, Anchor::NE, Anchor::W, Anchor::O, Anchor::E, Anchor::SW, Anchor::S, Anchor::SE};
    l->anchor = as[g.below(9)];
    if (g.chance(50)) {
        static const double mags[] = {1, 2, 0.5, 3, 1.25};
        static const double rots[] = {0, M_PI / 2, M_PI, -M_PI / 2, M_PI / 4, 1.0};
        l->magnification = mags[g.below(5)];
        l->rotation = rots[g.below(6)];
        l->x_reflection = g.coin();
    }
    return l;
}

static inline Reference* gen_reference(Rng& g, const GenOpts& o, Cell* target, const char* by_name) {
    Reference* r = (Reference*)allocate_clear(sizeof(Reference));
    if (target) {
        r->type = ReferenceType::Cell;
        r->cell = target;
    } else {
        r->type = ReferenceType::Name;
        r->name = copy_string(by_name, NULL);
    }
    r->magnification = 1;
    r->origin = Vec2{((double)g.range(-o.coord_range, o.coord_range) + qfrac(g, o)) * o.grid, ((double)g.range(-o.coord_range, o.coord_range) + qfrac(g, o)) * o.grid};
    if (g.chance(50)) {
        static const double mags[] = {1, 2, 0.5, 3};
        static const double rots[] = {0, M_PI / 2, M_PI, -M_PI / 2, M_PI / 4, 0.3};
        r->magnification = mags[g.below(4)];
        r->rotation = rots[g.below(6)];
        r->x_reflection = g.coin();
    }
    return r;
}

// Build a random library; cells reference only earlier cells (acyclic).
static inline Library gen_library(Rng& g, const GenOpts& o) {
    Library lib = {};
    lib.init(rand_name(g, 8).c_str(), 1.0, o.grid);  // unit 1, precision = one grid unit
    int nc = 1 + (int)g.below(o.max_cells);
    for (int c = 0; c < nc; c++) {
        Cell* cell = (Cell*)allocate_clear(sizeof(Cell));
        std::string nm;
        do {
            // now and then the empty name (a STRNAME record without payload): every reader has to take it
            nm = g.chance(4) ? std::string() : rand_name(g, 10);
        } while (lib.get_cell(nm.c_str()) != NULL);
        cell->name = dupstr(nm);
        int ne = (int)g.below(o.max_elems + 1);
        for (int e = 0; e < ne; e++) {
            int kind = (int)g.below(4);
            if (kind == 0 || (kind == 1 && !o.with_paths) || (kind == 2 && !o.with_labels) ||
                (kind == 3 && (!o.with_refs))) {
                Polygon* p = gen_polygon(g, o);
                if (o.with_props) add_gds_props(g, p->properties);
                if (o.with_reps && g.chance(25)) gen_repetition(g, o, p->repetition);
                cell->polygon_array.append(p);
            } else if (kind == 1) {
                FlexPath* fp = gen_simple_path(g, o);
                if (o.with_props) add_gds_props(g, fp->properties);
                if (o.with_reps && g.chance(25)) gen_repetition(g, o, fp->repetition);
                cell->flexpath_array.append(fp);
            } else if (kind == 2) {
                Label* l = gen_label(g, o);
                if (o.with_props) add_gds_props(g, l->properties);
                if (o.with_reps && g.chance(o.offgrid ? 70 : 25)) {
                    gen_repetition(g, o, l->repetition);
                    if (o.offgrid && l->repetition.type != RepetitionType::Explicit && g.chance(70)) {
                        // off-grid origin + off-grid explicit offsets: the sum is rounded once
                        l->repetition.clear();
                        memset(&l->repetition, 0, sizeof l->repetition);
                        l->repetition.type = RepetitionType::Explicit;
                        int n = 1 + (int)g.below(4);
                        for (int i = 0; i < n; i++)
                            l->repetition.offsets.append(Vec2{((double)g.range(-400, 400) + qfrac(g, o)) * o.grid,
                                                              ((double)g.range(-400, 400) + qfrac(g, o)) * o.grid});
                    }
                }
                cell->label_array.append(l);
            } else {
                Reference* r;
                if (c > 0 && g.chance(85))
                    r = gen_reference(g, o, lib.cell_array[g.below(c)], NULL);
                else
                    r = gen_reference(g, o, NULL, g.chance(6) ? "" : ("EXT_" + rand_name(g, 5)).c_str());
                if (o.with_props) add_gds_props(g, r->properties);
                if (o.with_reps && g.chance(40)) gen_repetition(g, o, r->repetition);
                cell->reference_array.append(r);
            }
        }
        lib.cell_array.append(cell);
    }
    return lib;
}

static inline std::vector<uint8_t> read_file(const std::string& path) {
    std::vector<uint8_t> v;
    FILE* f = fopen(path.c_str(), "rb");
    if (!f) return v;
    uint8_t buf[65536];
    size_t r;
    while ((r = fread(buf, 1, sizeof buf, f)) > 0) v.insert(v.end(), buf, buf + r);
    fclose(f);
    return v;
}
static inline void write_file(const std::string& path, const uint8_t* p, size_t n) {
    FILE* f = fopen(path.c_str(), "wb");
    if (n) fwrite(p, 1, n, f);
    fclose(f);
}
static inline int count_fds() {
    int n = 0;
    DIR* d = opendir("/proc/self/fd");
    if (!d) return -1;
    while (readdir(d)) n++;
    closedir(d);
    return n;
}
static inline tm fixed_tm() {
    tm t = {};
    t.tm_year = 120;
    t.tm_mon = 5;
    t.tm_mday = 17;
    t.tm_hour = 11;
    t.tm_min = 22;
    t.tm_sec = 33;
    return t;
}
