// C15 harness: Curve sections (segment/horizontal/vertical/cubic/cubic_smooth/quadratic/
// quadratic_smooth/bezier/interpolation/arc/turn/parametric/commands) and the shape primitives
// (rectangle, cross, regular_polygon, ellipse, racetrack, Polygon::fillet) of the real library.
//
// One generated "curve" is a start point, a tolerance and a sequence of construction calls.  The
// harness runs it on a gdstk::Curve and emits ONE CASE PER CALL:
//     payload = <description of the whole curve> # <index of the call> | <data for the model driver>
// The description alone is what a replay re-parses; the data part carries the implementation's
// state before the call and the vertices it appended (exact: doubles are dyadic; vertices as
// integers on the 2^-40 grid, with the number of inexact conversions counted in the stats).
//   I line : n0=<first step NaN?> E=<end point> C=<last_ctrl>   (grid integers)   [polynomial calls]
//            arc <number of vertices>                                              [arcs, shapes]
//   P line : checks the harness can make alone: finite vertices, first vertex = previous end point,
//            last vertex = requested end point, last_ctrl as documented, chord count / deviation of
//            arcs in floating point, commands() == direct calls, regular polygon vertices.
// The driver (ocaml/c15_driver.ml) answers M (model post-state, NaN prediction at t=0) and
// S (vertices on the exact curve in order; polyline within K*tol of it, exact arithmetic).
#include <algorithm>
#include <math.h>
#include <gdstk/gdstk.hpp>
#include "common.hpp"

using namespace gdstk;

typedef long double ld;
// Reference (independent of src/utils.cpp): the parametric angle t of the ellipse point x = rx cos t, y = ry sin t
// that lies in direction `angle` from the centre, continuous in `angle` and equal to it at every multiple of pi/2:
// t = angle - w + atan2(rx sin w, ry cos w) with w = angle wrapped to [-pi, pi).
static double ref_ell_angle(double angle, double rx, double ry) {
    if (angle == 0 || angle == M_PI || rx == ry) return angle;
    double w = fmod(angle + M_PI, 2 * M_PI);
    if (w < 0) w += 2 * M_PI;
    w -= M_PI;
    return (angle - w) + atan2(rx * sin(angle), ry * cos(angle));
}

static const int GRID_BITS = 40;
static long g_inexact = 0;
static size_t g_budget = 96;  // exact distance samples per arc (quick); thorough: 384

// ---------------------------------------------------------------- numbers <-> text
static bool finite2(const Vec2& v) { return std::isfinite(v.x) && std::isfinite(v.y); }
static std::string grid(double x) {  // integer on the 2^-40 grid (nearest); "nan" if not finite
    if (!std::isfinite(x)) return "nan";
    double s = ldexp(x, GRID_BITS);
    if (fabs(s) >= 9.0e18) return "nan";
    long long r = llround(s);
    if ((double)r != s) g_inexact++;
    return hex_i64(r);
}
static std::string grid2(const Vec2& v) { return grid(v.x) + " " + grid(v.y); }
static std::string hd2(const Vec2& v) { return hex_dbl(v.x) + " " + hex_dbl(v.y); }
static std::string grid60(long double t) {  // parameters in [0,1] on the 2^-60 grid
    if (!std::isfinite((double)t)) return "nan";
    return hex_i64(llroundl(ldexpl(t, 60)));
}
static double parse_dbl(const std::string& s) { return bits_dbl(strtoull(s.c_str(), NULL, 16)); }
static bool same_bits_or_zero(double a, double b) { return a == b; }  // +0 == -0 accepted
static bool eqv(const Vec2& a, const Vec2& b) { return same_bits_or_zero(a.x, b.x) && same_bits_or_zero(a.y, b.y); }

// ---------------------------------------------------------------- description of a curve
struct Call {
    std::string kind;  // segment segments horizontal horizontals vertical verticals cubic cubic_smooth
                       // quadratic quad_smooth1 quad_smooth bezier interp arc turn param
    bool rel = false, cycle = false;
    std::vector<Vec2> pts;     // points (horizontal/vertical: x or y in .x)
    std::vector<double> num;   // arc: rx ry a0 a1 rot; turn: r angle; interp: tin tout icurl fcurl
};
struct CurveDesc {
    double tol = 0.01;
    Vec2 start = {0, 0};
    bool via_commands = false;  // additionally build through Curve::commands and compare
    std::vector<Call> calls;
};

static std::string fmt_call(const Call& c) {
    std::string s = c.kind + " " + (c.rel ? "1" : "0") + " " + (c.cycle ? "1" : "0") + " " + std::to_string(c.pts.size());
    for (auto& p : c.pts) s += " " + hex_dbl(p.x) + " " + hex_dbl(p.y);
    s += " " + std::to_string(c.num.size());
    for (double d : c.num) s += " " + hex_dbl(d);
    return s;
}
static std::string fmt_desc(const CurveDesc& d) {
    std::string s = hex_dbl(d.tol) + " " + hex_dbl(d.start.x) + " " + hex_dbl(d.start.y) + " " + (d.via_commands ? "1" : "0") +
                    " " + std::to_string(d.calls.size());
    for (auto& c : d.calls) s += " ; " + fmt_call(c);
    return s;
}
static std::vector<std::string> split_ws(const std::string& s) {
    std::vector<std::string> v;
    size_t i = 0;
    while (i < s.size()) {
        while (i < s.size() && s[i] == ' ') i++;
        size_t j = i;
        while (j < s.size() && s[j] != ' ') j++;
        if (j > i) v.push_back(s.substr(i, j - i));
        i = j;
    }
    return v;
}
static bool parse_desc(const std::string& text, CurveDesc& d) {
    std::string t = text;
    size_t bar = t.find('|');
    if (bar != std::string::npos) t = t.substr(0, bar);
    size_t hash = t.find('#');
    if (hash != std::string::npos) t = t.substr(0, hash);
    std::vector<std::string> w = split_ws(t);
    size_t i = 0;
    auto need = [&](size_t n) { return i + n <= w.size(); };
    if (!need(5)) return false;
    d.tol = parse_dbl(w[i++]);
    d.start.x = parse_dbl(w[i++]);
    d.start.y = parse_dbl(w[i++]);
    d.via_commands = w[i++] == "1";
    size_t nc = strtoul(w[i++].c_str(), NULL, 10);
    for (size_t k = 0; k < nc; k++) {
        if (!need(1) || w[i] != ";") return false;
        i++;
        if (!need(4)) return false;
        Call c;
        c.kind = w[i++];
        c.rel = w[i++] == "1";
        c.cycle = w[i++] == "1";
        size_t np = strtoul(w[i++].c_str(), NULL, 10);
        if (!need(2 * np + 1)) return false;
        for (size_t j = 0; j < np; j++) {
            Vec2 p;
            p.x = parse_dbl(w[i++]);
            p.y = parse_dbl(w[i++]);
            c.pts.push_back(p);
        }
        size_t nn = strtoul(w[i++].c_str(), NULL, 10);
        if (!need(nn)) return false;
        for (size_t j = 0; j < nn; j++) c.num.push_back(parse_dbl(w[i++]));
        d.calls.push_back(c);
    }
    return true;
}

// ---------------------------------------------------------------- exact-ish curve evaluation (long double)
static void bez_eval(const std::vector<Vec2>& c, ld t, ld& x, ld& y) {
    ld px[16], py[16];
    size_t n = c.size();
    for (size_t i = 0; i < n; i++) {
        px[i] = c[i].x;
        py[i] = c[i].y;
    }
    for (size_t j = n - 1; j > 0; j--)
        for (size_t i = 0; i < j; i++) {
            px[i] = (1 - t) * px[i] + t * px[i + 1];
            py[i] = (1 - t) * py[i] + t * py[i + 1];
        }
    x = px[0];
    y = py[0];
}
static ld bez_dist2(const std::vector<Vec2>& c, ld t, const Vec2& v) {
    ld x, y;
    bez_eval(c, t, x, y);
    return (x - v.x) * (x - v.x) + (y - v.y) * (y - v.y);
}
static ld seg_dist(ld px, ld py, const Vec2& a, const Vec2& b) {
    ld dx = (ld)b.x - a.x, dy = (ld)b.y - a.y, wx = px - a.x, wy = py - a.y;
    ld L = dx * dx + dy * dy, s = wx * dx + wy * dy;
    if (s <= 0 || L == 0) return sqrtl(wx * wx + wy * wy);
    if (s >= L) return sqrtl((px - b.x) * (px - b.x) + (py - b.y) * (py - b.y));
    ld cr = wx * dy - wy * dx;
    return fabsl(cr) / sqrtl(L);
}
// smallest parameter in (tlo, thi] at which the curve passes (numerically) through v; -1 if none.
// Greedy smallest witnesses succeed whenever an increasing witness sequence exists at all.  Two levels
// of scanning separate the close minima of a hairpin (the two branches) before the ternary search.
struct TSearch {
    const std::vector<Vec2>& c;
    const Vec2& v;
    ld tlo, accept;
    ld best_f, best_t;
    bool final_vertex;
    ld scan(ld lo, ld hi, int depth) {
        const int G = 128;
        ld f[129], ts[129];
        bool allzero = true;
        for (int i = 0; i <= G; i++) {
            ts[i] = lo + (hi - lo) * i / G;
            f[i] = bez_dist2(c, ts[i], v);
            allzero = allzero && f[i] <= accept;
        }
        if (allzero && depth == 0) return lo + (hi - lo) / 2;  // the curve rests at v over the whole window
        for (int i = 0; i <= G; i++) {
            bool lmin = (i == 0 || f[i] <= f[i - 1]) && (i == G || f[i] <= f[i + 1]);
            if (!lmin) continue;
            ld a = ts[i > 1 ? i - 2 : 0], b = ts[i + 2 < G ? i + 2 : G];
            if (depth < 1) {
                ld r = scan(a, b, depth + 1);
                if (r >= 0) return r;
                continue;
            }
            for (int it = 0; it < 100; it++) {  // ternary search in the bracket
                ld m1 = a + (b - a) / 3, m2 = b - (b - a) / 3;
                if (bez_dist2(c, m1, v) <= bez_dist2(c, m2, v)) b = m2; else a = m1;
            }
            ld tm = (a + b) / 2;
            if (tm < tlo + ldexpl(1.0L, -58)) tm = tlo + ldexpl(1.0L, -58);  // distinct on the 2^-60 grid
            if (!final_vertex && tm > 1.0L - ldexpl(1.0L, -50))  // a vertex before the last one: stay below 1 on the 2^-60 grid
                tm = tlo > 1.0L - ldexpl(1.0L, -49) ? (tlo + 1.0L) / 2 : 1.0L - ldexpl(1.0L, -50);
            ld fm = bez_dist2(c, tm, v);
            if (fm <= accept) return tm;  // first (smallest) acceptable minimum
            if (best_f < 0 || fm < best_f) {
                best_f = fm;
                best_t = tm;
            }
        }
        return -1;
    }
};
static ld find_t(const std::vector<Vec2>& c, const Vec2& v, ld tlo, double dtmax, ld scale) {
    TSearch S{c, v, tlo, (1e-11L * scale) * (1e-11L * scale), -1, std::min((ld)1.0, tlo + dtmax), false};
    ld th = std::min((ld)1.0, tlo + (ld)dtmax * (1 + 1e-9L) + 1e-15L);
    ld t = S.scan(tlo, th, 0);
    if (t >= 0) return t;
    if (th < 1.0L) {
        t = S.scan(th, 1.0L, 0);
        if (t >= 0) return t;
    }
    return S.best_t;
}

// ---------------------------------------------------------------- one polynomial section
struct Sec {
    std::vector<Vec2> ctrl;  // absolute control polygon as the C++ computes it (same double operations)
    bool line;
    Sec() : line(false) {}
    Sec(std::vector<Vec2> c, bool l) : ctrl(c), line(l) {}
};

static Vec2 cubic_cb_ctrl[4];
static Vec2 param_cubic(double u, void*) {
    const Vec2* p = cubic_cb_ctrl;
    double r = 1 - u;
    return (r * r * r) * p[0] + (3 * r * r * u) * p[1] + (3 * r * u * u) * p[2] + (u * u * u) * p[3];
}

struct Stats {
    std::map<std::string, double> maxratio;
};
static Stats g_stats;

// floating-point estimate of max distance curve piece -> its chord, relative to tol
static double piece_ratio(const std::vector<Vec2>& ctrl, ld t0, ld t1, const Vec2& a, const Vec2& b, double tol) {
    ld worst = 0;
    for (int j = 1; j < 16; j++) {
        ld t = t0 + ((ld)t1 - t0) * j / 16, x, y;
        bez_eval(ctrl, t, x, y);
        ld d = seg_dist(x, y, a, b);
        if (d > worst) worst = d;
    }
    return (double)(worst / tol);
}
static bool span_lt_quarter(const std::vector<Vec2>& c) {
    std::vector<Vec2> e;
    for (size_t i = 0; i + 1 < c.size(); i++) {
        Vec2 d = c[i + 1] - c[i];
        if (d.x != 0 || d.y != 0) e.push_back(d);
    }
    if (e.empty()) return false;
    for (size_t i = 0; i < e.size(); i++)
        for (size_t j = i + 1; j < e.size(); j++)
            if (!((ld)e[i].x * e[j].x + (ld)e[i].y * e[j].y > 0)) return false;
    return true;
}

// ---------------------------------------------------------------- arcs: data + floating-point oracle
struct ArcInfo {
    double rx, ry, cr, sr, cx, cy, a0, a1;  // a0,a1: elliptical (parametric) angles
    uint64_t nseg;
};
static std::string arc_data(const std::string& label, double tol, const ArcInfo& A, const std::vector<Vec2>& v, bool closed_uniform) {
    (void)closed_uniform;
    const size_t n = v.size() - 1;
    double step = (A.a1 - A.a0) / (double)A.nseg;
    int nq = (int)floor(fabs(step) / (M_PI / 2));
    std::string s = "arc " + label + " " + hex_dbl(tol) + " " + hex_dbl(A.rx) + " " + hex_dbl(A.ry) + " " + hex_dbl(A.cr * A.rx) + " " +
                    hex_dbl(-A.sr * A.ry) + " " + hex_dbl(A.sr * A.rx) + " " + hex_dbl(A.cr * A.ry) + " " + hex_dbl(A.cx) + " " +
                    hex_dbl(A.cy) + " " + hex_dbl(cos(step)) + " " + hex_dbl(sin(step)) + " " + (step < 0 ? "-1" : "1") + " " +
                    std::to_string(nq) + " " + std::to_string(v.size());
    for (auto& p : v) s += " " + hd2(p);
    // sample parameters inside the chords' spans: quarter turn index and half-angle tangent on the 2^-bb
    // grid, 2^-bb <= step / 1024.  At most ~g_budget samples per arc: up to 15 per chord, and for long
    // polylines the midpoint of every stride-th chord (first and last chord always).
    size_t m = g_budget / (n ? n : 1);
    if (m > 16) m = 16;
    if (m < 2) m = 2;
    if (m & 1) m++;
    size_t stride = (n + g_budget - 1) / g_budget;
    if (stride < 1) stride = 1;
    int bb = (int)ceil(log2(1024.0 / std::max(fabs(step), 1e-9)));
    if (bb < 12) bb = 12;
    if (bb > 28) bb = 28;
    s += " " + std::to_string(bb);
    for (size_t k = 0; k < n; k++) {
        if (!(k % stride == 0 || k + 1 == n)) {
            s += " 0";
            continue;
        }
        s += " " + std::to_string(m - 1);
        for (size_t j = 1; j < m; j++) {
            ld ang = A.a0 + ((ld)A.a1 - A.a0) * ((ld)k + (ld)j / (ld)m) / (ld)n;
            long long q = llroundl(ang / (M_PIl / 2));
            ld psi = ang - q * (M_PIl / 2);
            long long a = llroundl(tanl(psi / 2) * ldexpl(1.0L, bb));
            s += " " + std::to_string((int)(((q % 4) + 4) % 4)) + " " + hex_i64(a);
        }
    }
    return s;
}
// max over chords of the distance (ellipse point at the chord's mid parameter and 6 more) -> chord
static double arc_ratio(double tol, const ArcInfo& A, const std::vector<Vec2>& v) {
    ld worst = 0;
    size_t n = v.size() - 1;
    for (size_t k = 0; k < n; k++) {
        for (int j = 1; j < 8; j++) {
            ld ang = A.a0 + ((ld)A.a1 - A.a0) * (k + j / 8.0L) / (ld)n;
            ld x = A.rx * cosl(ang), y = A.ry * sinl(ang);
            ld px = A.cx + x * A.cr - y * A.sr, py = A.cy + x * A.sr + y * A.cr;
            ld d = seg_dist(px, py, v[k], v[k + 1]);
            if (d > worst) worst = d;
        }
    }
    return (double)(worst / tol);
}
static uint64_t expected_arc_points(double angle, double radius, double tol, bool& boundary) {
    ld c = 1 - (ld)tol / radius;
    ld a = c < -1 ? (ld)M_PIl : acosl(c);
    ld x = 0.5L + 0.5L * fabsl((ld)angle) / a;
    ld fl = floorl(x);
    boundary = (x - fl < 1e-9L * (1 + x)) || (fl + 1 - x < 1e-9L * (1 + x));
    return (uint64_t)fl;
}

// ---------------------------------------------------------------- running one curve
struct Emit {
    Out& out;
    std::string desc;
};

static void note_ratio(const std::string& k, double r) {
    double& m = g_stats.maxratio[k];
    if (r > m) m = r;
}

static void run_curve(Out& out, const CurveDesc& d) {
    const std::string desc = fmt_desc(d);
    Curve c = {};
    c.init(d.start, d.tol);
    const double tol = d.tol;
    bool dead = false;  // a previous call left a non-finite current point
    for (size_t ci = 0; ci < d.calls.size() && !dead; ci++) {
        const Call& call = d.calls[ci];
        const Vec2 pre = c.point_array[c.point_array.count - 1];
        const Vec2 pre_ctl = c.last_ctrl;
        const uint64_t n0 = c.point_array.count;
        const std::string& k = call.kind;
        Array<Vec2> arr = {};
        for (auto& p : call.pts) arr.append(p);
        std::vector<Sec> secs;  // expected sections (absolute control polygons, C++ arithmetic)
        Vec2 exp_ctl = pre_ctl;
        bool have_exp_ctl = true;
        std::vector<Vec2> hob;  // interpolation: ca, cb per piece
        bool is_arc = false;
        ArcInfo A = {};
        std::string fail;  // first P failure
        auto setfail = [&](const std::string& f) {
            if (fail.empty()) fail = f;
        };
        const Vec2 ref = pre;
        auto offp = [&](const Vec2& p) { return call.rel ? ref + p : p; };

        // ---- invoke, and say what the documentation promises
        if (k == "segment") {
            c.segment(call.pts[0], call.rel);
            Vec2 e = call.rel ? call.pts[0] + pre : call.pts[0];
            secs.push_back(Sec{{pre, e}, true});
            exp_ctl = pre;
        } else if (k == "segments") {
            c.segment(arr, call.rel);
            Vec2 prev = pre;
            for (auto& p : call.pts) {
                Vec2 e = offp(p);
                secs.push_back(Sec{{prev, e}, true});
                exp_ctl = prev;
                prev = e;
            }
        } else if (k == "horizontal" || k == "vertical") {
            bool h = k == "horizontal";
            if (h) c.horizontal(call.pts[0].x, call.rel); else c.vertical(call.pts[0].x, call.rel);
            Vec2 e = pre;
            if (h) e.x = call.rel ? pre.x + call.pts[0].x : call.pts[0].x;
            else e.y = call.rel ? pre.y + call.pts[0].x : call.pts[0].x;
            secs.push_back(Sec{{pre, e}, true});
            exp_ctl = pre;
        } else if (k == "horizontals" || k == "verticals") {
            bool h = k == "horizontals";
            Array<double> co = {};
            for (auto& p : call.pts) co.append(p.x);
            if (h) c.horizontal(co, call.rel); else c.vertical(co, call.rel);
            co.clear();
            Vec2 prev = pre;
            for (auto& p : call.pts) {
                Vec2 e = pre;
                if (h) e.x = call.rel ? ref.x + p.x : p.x; else e.y = call.rel ? ref.y + p.x : p.x;
                secs.push_back(Sec{{prev, e}, true});
                exp_ctl = prev;
                prev = e;
            }
        } else if (k == "cubic") {
            c.cubic(arr, call.rel);
            Vec2 prev = pre;
            for (size_t i = 0; i + 2 < call.pts.size(); i += 3) {
                Vec2 e = offp(call.pts[i + 2]);
                secs.push_back(Sec{{prev, offp(call.pts[i]), offp(call.pts[i + 1]), e}, false});
                prev = e;
            }
            exp_ctl = offp(call.pts[call.pts.size() - 2]);
        } else if (k == "cubic_smooth") {
            c.cubic_smooth(arr, call.rel);
            Vec2 prev = pre, lc = pre_ctl;
            for (size_t i = 0; i + 1 < call.pts.size(); i += 2) {
                Vec2 sm = prev * 2 - lc;
                lc = offp(call.pts[i]);
                Vec2 e = offp(call.pts[i + 1]);
                secs.push_back(Sec{{prev, sm, lc, e}, false});
                prev = e;
            }
            exp_ctl = lc;
        } else if (k == "quadratic") {
            c.quadratic(arr, call.rel);
            Vec2 prev = pre;
            for (size_t i = 0; i + 1 < call.pts.size(); i += 2) {
                Vec2 e = offp(call.pts[i + 1]);
                secs.push_back(Sec{{prev, offp(call.pts[i]), e}, false});
                prev = e;
            }
            exp_ctl = offp(call.pts[call.pts.size() - 2]);
        } else if (k == "quad_smooth1") {
            c.quadratic_smooth(call.pts[0], call.rel);
            Vec2 lc = pre * 2 - pre_ctl;
            Vec2 e = call.rel ? pre + call.pts[0] : call.pts[0];
            secs.push_back(Sec{{pre, lc, e}, false});
            exp_ctl = lc;
        } else if (k == "quad_smooth") {
            c.quadratic_smooth(arr, call.rel);
            Vec2 prev = pre, lc = pre_ctl;
            for (auto& p : call.pts) {
                lc = prev * 2 - lc;
                Vec2 e = offp(p);
                secs.push_back(Sec{{prev, lc, e}, false});
                prev = e;
            }
            exp_ctl = lc;
        } else if (k == "bezier") {
            c.bezier(arr, call.rel);
            Sec s;
            s.ctrl.push_back(pre);
            for (auto& p : call.pts) s.ctrl.push_back(offp(p));
            secs.push_back(s);
            exp_ctl = offp(call.pts[call.pts.size() - 2]);  // documented: the last control point, absolute
        } else if (k == "interp") {
            size_t np = call.pts.size();
            std::vector<double> angles(np + 1, 0.0);
            std::vector<char> cons(np + 1, 0);
            std::vector<Vec2> tens(np + 1, Vec2{call.num[0], call.num[1]});
            bool* bc = (bool*)calloc(np + 1, sizeof(bool));
            (void)cons;
            // optional angle constraints: per point (flag, angle) after the four scalars
            if (call.num.size() >= 4 + 2 * (np + 1))
                for (size_t i = 0; i <= np; i++) {
                    bc[i] = call.num[4 + 2 * i] != 0;
                    angles[i] = call.num[5 + 2 * i];
                }
            // the control points the call must use: the same public routine on the same input
            std::vector<Vec2> hv(3 * (np + 1) + 1);
            hv[0] = ref;
            for (size_t i = 0; i < np; i++) hv[3 * (i + 1)] = offp(call.pts[i]);
            hobby_interpolation(np + 1, hv.data(), angles.data(), bc, tens.data(), call.num[2], call.num[3], call.cycle);
            if (call.cycle) hv[3 * (np + 1)] = ref;
            c.interpolation(arr, angles.data(), bc, tens.data(), call.num[2], call.num[3], call.cycle, call.rel);
            free(bc);
            size_t pieces = np + (call.cycle ? 1 : 0);
            for (size_t i = 0; i < pieces; i++) {
                secs.push_back(Sec{{hv[3 * i], hv[3 * i + 1], hv[3 * i + 2], hv[3 * i + 3]}, false});
                hob.push_back(hv[3 * i + 1]);
                hob.push_back(hv[3 * i + 2]);
            }
            exp_ctl = hv[3 * pieces - 1];
        } else if (k == "param") {
            for (int i = 0; i < 4; i++) cubic_cb_ctrl[i] = call.pts[i];
            c.parametric(param_cubic, NULL, call.rel);
            Sec s;
            const Vec2 r0 = call.rel ? ref : Vec2{0, 0};
            for (int i = 0; i < 4; i++) s.ctrl.push_back(call.pts[i] + r0);
            // end points exactly as the callback returns them
            s.ctrl[0] = param_cubic(0, NULL) + r0;
            s.ctrl[3] = param_cubic(1, NULL) + r0;
            secs.push_back(s);
            exp_ctl = pre_ctl;  // parametric() does not touch last_ctrl
        } else if (k == "arc" || k == "turn") {
            is_arc = true;
            double rx, ry, a_i, a_f, rot;
            if (k == "arc") {
                rx = call.num[0]; ry = call.num[1]; a_i = call.num[2]; a_f = call.num[3]; rot = call.num[4];
                c.arc(rx, ry, a_i, a_f, rot);
            } else {
                rx = ry = call.num[0];
                rot = 0;
                const Vec2 direction = pre - pre_ctl;
                a_i = direction.angle() + (call.num[1] < 0 ? 0.5 * M_PI : -0.5 * M_PI);
                a_f = a_i + call.num[1];
                c.turn(call.num[0], call.num[1]);
            }
            A.rx = rx; A.ry = ry; A.cr = cos(rot); A.sr = sin(rot);
            A.a0 = ref_ell_angle(a_i - rot, rx, ry);
            A.a1 = ref_ell_angle(a_f - rot, rx, ry);
            double x = rx * cos(A.a0), y = ry * sin(A.a0);
            Vec2 point0 = {x * A.cr - y * A.sr, x * A.sr + y * A.cr};
            Vec2 delta = pre - point0;
            A.cx = delta.x; A.cy = delta.y;
            A.nseg = c.point_array.count - n0;
            // chord count against the formula (long double) for the PARAMETER span (what the theorem needs and,
            // since fix 4b3b094, what Curve::arc uses).  Fewer chords on an ellipse is finding F12.
            {
                bool bnd;
                uint64_t np = 1 + expected_arc_points(fabs(A.a1 - A.a0), rx > ry ? rx : ry, tol, bnd);
                if (np < GDSTK_MIN_POINTS) np = GDSTK_MIN_POINTS;
                uint64_t got = A.nseg + 1;
                if (got < np && !(bnd && got + 1 == np))
                    setfail(std::string("FAIL ") + (rx == ry ? "Curve::arc:count " : "Curve::arc:ellipse-span ") + std::to_string(got) +
                            " points, the chord formula for the parameter span gives " + std::to_string(np));
                else if (got != np && !(bnd && (got + 1 == np || got == np + 1)))
                    out.count("arc:more-chords-than-formula");
            }
            have_exp_ctl = false;
        } else {
            out.count("unknown-call");
            arr.clear();
            return;
        }
        arr.clear();

        // ---- collect the appended vertices
        std::vector<Vec2> nv;
        for (uint64_t i = n0; i < c.point_array.count; i++) nv.push_back(c.point_array[i]);
        const Vec2 post = c.point_array[c.point_array.count - 1];
        const Vec2 post_ctl = c.last_ctrl;
        bool allfinite = true;
        for (auto& p : nv) allfinite = allfinite && finite2(p);
        if (!finite2(post)) dead = true;

        std::string payload_head = desc + " # " + std::to_string(ci) + " | ";
        std::string data, Iline;

        if (is_arc) {
            std::vector<Vec2> av;
            av.push_back(pre);
            for (auto& p : nv) av.push_back(p);
            if (!allfinite) setfail("FAIL " + std::string(k == "arc" ? "Curve::arc" : "Curve::turn") + ":nonfinite vertex is not finite");
            if (allfinite && !nv.empty()) {
                // end point: the same expression the C++ evaluates at t = 1 (LERP(a0,a1,1) = a1)
                double x = A.rx * cos(A.a1), y = A.ry * sin(A.a1);
                Vec2 pe = Vec2{x * A.cr - y * A.sr, x * A.sr + y * A.cr} + Vec2{A.cx, A.cy};
                double ulp = 4 * 2.220446049250313e-16 * (fabs(pe.x) + fabs(pe.y) + A.rx + A.ry);
                if (fabs(pe.x - post.x) > ulp || fabs(pe.y - post.y) > ulp)
                    setfail("FAIL Curve::arc:end last vertex is not start + (P(final) - P(initial))");
                // last_ctrl: behind the end point along the last chord, at the mean radius
                Vec2 chord = av[av.size() - 2] - av[av.size() - 1];
                Vec2 back = post_ctl - post;
                double lc = chord.length(), lb = back.length();
                if (!finite2(post_ctl))
                    setfail("FAIL Curve::arc:last_ctrl last_ctrl is not finite (zero-length last chord)");
                else if (lc > 1e-9 * (A.rx + A.ry)) {
                    double cs = chord.cross(back) / (lc * lb), dt = chord.inner(back) / (lc * lb);
                    if (!(fabs(cs) < 1e-9 && dt > 0 && fabs(lb - 0.5 * (A.rx + A.ry)) <= 1e-9 * (A.rx + A.ry)))
                        setfail("FAIL Curve::arc:last_ctrl not behind the end point along the last chord at the mean radius");
                }
                if (k == "turn") {
                    // continuity: the first chord leaves along `direction`, turned by half a step
                    Vec2 dir = pre - pre_ctl;
                    Vec2 ch = av[1] - av[0];
                    double half = 0.5 * call.num[1] / (double)A.nseg;
                    double ang = atan2(dir.cross(ch), dir.inner(ch));
                    double diff = ang - half;
                    while (diff > M_PI) diff -= 2 * M_PI;
                    while (diff < -M_PI) diff += 2 * M_PI;
                    if (dir.length() > 0 && ch.length() > 1e-9 * A.rx && fabs(diff) > 1e-6)
                        setfail("FAIL Curve::turn:direction first chord does not continue the previous direction");
                }
                double ratio = arc_ratio(tol, A, av);
                note_ratio(std::string("arc-") + (A.rx == A.ry ? "circular" : "elliptical"), ratio);
                if (ratio > 4.0 * (1 + 1e-6)) {
                    char b[160];
                    snprintf(b, sizeof b, "%.3f tol with %llu chords", ratio, (unsigned long long)A.nseg);
                    if (A.rx != A.ry)
                        setfail(std::string("FAIL Curve::arc:ellipse-span elliptical arc deviates ") + b);
                    else
                        setfail(std::string("FAIL Curve::arc:deviation circular arc deviates ") + b);
                }
            }
            data = allfinite ? arc_data(k, tol, A, av, false) : "skip nonfinite";
            Iline = "arc " + std::to_string(av.size());
            out.count(std::string("arc:") + (A.rx == A.ry ? "circular" : "elliptical"));
            out.count(std::string("arc:span>2pi:") + (fabs(A.a1 - A.a0) > 2 * M_PI ? "yes" : "no"));
            out.count(std::string("arc:tol>=r:") + (tol >= std::max(A.rx, A.ry) ? "yes" : "no"));
        } else {
            // ---- split the vertices among the sections; parameters of the vertices
            size_t pos = 0;
            std::string secdata;
            bool nan_first = false;
            size_t nsec_done = 0;
            ld scale = 1e-300L;
            for (auto& s : secs)
                for (auto& p : s.ctrl) scale = std::max(scale, (ld)std::max(fabs(p.x), fabs(p.y)));
            for (size_t si = 0; si < secs.size(); si++) {
                Sec& s = secs[si];
                const Vec2 e = s.ctrl.back();
                std::vector<Vec2> sv;
                bool found = false, nanhere = false;
                while (pos < nv.size()) {
                    Vec2 p = nv[pos++];
                    sv.push_back(p);
                    if (!finite2(p)) {
                        nanhere = true;
                        break;
                    }
                    if (eqv(p, e)) {
                        // a vertex equal to the requested end closes the section; a degenerate section
                        // (all control points equal) repeats it: the repeats belong to the same section
                        found = true;
                        size_t remaining = secs.size() - 1 - si;
                        if (remaining == 0 && !s.line) {
                            bool rest_finite = true;
                            for (size_t q = pos; q < nv.size(); q++) rest_finite = rest_finite && finite2(nv[q]);
                            if (rest_finite && pos < nv.size() && eqv(nv.back(), e))
                                while (pos < nv.size()) sv.push_back(nv[pos++]);
                        } else if (!s.line) {
                            bool degenerate = true;
                            for (auto& cp : s.ctrl) degenerate = degenerate && eqv(cp, e);
                            if (degenerate) {
                                // the sections that follow and end at this same point (degenerate ones in a row, or a loop back to it)
                                // need a vertex equal to it each: leave them one
                                size_t need = 0;
                                for (size_t sj = si + 1; sj < secs.size() && eqv(secs[sj].ctrl.back(), e); sj++) need++;
                                auto run_len = [&]() {
                                    size_t q = pos;
                                    while (q < nv.size() && eqv(nv[q], e)) q++;
                                    return q - pos;
                                };
                                while (pos + remaining < nv.size() && eqv(nv[pos], e) && run_len() > need) sv.push_back(nv[pos++]);
                            }
                        }
                        break;
                    }
                }
                if (k == "param" && si == 0 && !sv.empty() && !nanhere) {
                    // parametric() first appends f(0)+ref when it is farther than tol from the current point
                    if (!eqv(s.ctrl[0], pre)) {
                        ld dx = (ld)s.ctrl[0].x - pre.x, dy = (ld)s.ctrl[0].y - pre.y;
                        if (dx * dx + dy * dy > (ld)tol * tol) setfail("FAIL Curve::parametric:start f(0) is not the current point");
                    }
                }
                if (nanhere) {
                    if (si == 0 && sv.size() == 1) nan_first = true;
                    std::string fn = s.ctrl.size() == 4 && k != "bezier" ? "append_cubic" : (s.ctrl.size() == 3 && k != "bezier" ? "append_quad" : "append_bezier");
                    if (s.line || k == "param")
                        setfail("FAIL " + k + ":nonfinite vertex is not finite");
                    else
                        setfail("FAIL append_cubic:nan-step " + fn + " appended a NaN vertex after " + std::to_string(sv.size() - 1) +
                                " vertices of section " + std::to_string(si) + " and stopped");
                    secdata += " 0";
                    nsec_done++;
                    continue;
                }
                if (!found) {
                    setfail("FAIL " + k + ":end section " + std::to_string(si) + " has no vertex equal to the requested end point");
                    secdata += " 0";
                    nsec_done++;
                    continue;
                }
                // parameters
                std::vector<ld> ts;
                if (s.line) {
                    ts.push_back(1.0);
                } else {
                    double dtmax = (k == "bezier") ? 1.0 / (double)s.ctrl.size() : 1.0 / GDSTK_MIN_POINTS;
                    ld tl = 0;
                    for (size_t vi = 0; vi + 1 < sv.size(); vi++) {
                        ld t = find_t(s.ctrl, sv[vi], tl, dtmax, scale);
                        ts.push_back(t);
                        tl = t;
                    }
                    ts.push_back(1.0);
                    bool cls = span_lt_quarter(s.ctrl);
                    out.count(std::string("poly-class:") + (cls ? "span<90" : "other"));
                    if (cls) {
                        double worst = 0;
                        Vec2 a = s.ctrl[0];
                        ld t0 = 0;
                        for (size_t vi = 0; vi < sv.size(); vi++) {
                            worst = std::max(worst, piece_ratio(s.ctrl, t0, ts[vi], a, sv[vi], tol));
                            a = sv[vi];
                            t0 = ts[vi];
                        }
                        std::string kk = k == "param" ? "param" : (s.ctrl.size() == 4 && k != "bezier" ? "cubic" : (s.ctrl.size() == 3 && k != "bezier" ? "quad" : "bezier"));
                        note_ratio("poly-" + kk, worst);
                    }
                }
                secdata += " " + std::to_string(sv.size());
                for (auto& p : sv) secdata += " " + hd2(p);
                for (ld t : ts) secdata += " " + grid60(t);
                nsec_done++;
            }
            if (pos < nv.size() && fail.empty()) {
                bool rest_finite = true;
                for (size_t q = pos; q < nv.size(); q++) rest_finite = rest_finite && finite2(nv[q]);
                if (!rest_finite && !secs.empty() && !secs.back().line && k != "param")
                    // the parameter reached 1 - ulp instead of 1: one more iteration, whose step is NaN
                    setfail("FAIL append_cubic:nan-step a NaN vertex is appended after the end point of the section (one more iteration at t = 1 - ulp)");
                else
                    setfail("FAIL " + k + ":extra vertices after the last requested end point");
            }
            // ---- P checks the harness can make alone
            if (!nv.empty() && finite2(post) && !secs.empty() && !eqv(post, secs.back().ctrl.back()))
                setfail("FAIL " + k + ":end last vertex differs from the requested end point");
            if (have_exp_ctl && finite2(post) && !eqv(post_ctl, exp_ctl)) {
                if (k == "bezier" && call.rel) {
                    char b[200];
                    snprintf(b, sizeof b, "last_ctrl = (%.17g, %.17g), the section's last control point is (%.17g, %.17g)", post_ctl.x,
                             post_ctl.y, exp_ctl.x, exp_ctl.y);
                    setfail(std::string("FAIL Curve::bezier:last_ctrl-relative ") + b);
                } else
                    setfail("FAIL " + k + ":last_ctrl last_ctrl is not the last control point of the section");
            }
            // ---- data for the driver
            data = "poly " + std::to_string(g_budget) + " " + hex_dbl(tol) + " " + hd2(pre) + " " + hd2(pre_ctl) + " " + k + " " + (call.rel ? "1" : "0") + " " +
                   (call.cycle ? "1" : "0") + " " + std::to_string(call.pts.size());
            for (auto& p : call.pts) data += " " + hd2(p);
            data += " " + std::to_string(hob.size() / 2);
            for (auto& p : hob) data += " " + hd2(p);
            data += " " + std::to_string(secs.size()) + secdata;
            Iline = std::string("n0=") + (nan_first ? "1" : "0") + " E=" + grid2(post) + " C=" + grid2(post_ctl);
            bool later_nan = !allfinite && !nan_first;
            if (later_nan) Iline = "nanlater";
            if (!finite2(pre_ctl)) Iline = "nonfinite-input";
            out.count("call:" + k + (call.rel ? ":rel" : ":abs"));
            // a section whose curve passes through its own end point before t = 1 (collinear control points traversed out and
            // back): the vertices cannot be attributed to sections by "first vertex equal to the end point"; such calls are
            // counted and not judged
            bool retrace = false;
            for (auto& s : secs) {
                if (s.line || s.ctrl.size() < 3) continue;
                const Vec2 e = s.ctrl.back();
                for (int i = 1; i <= 2007 && !retrace; i++) {
                    ld x, y;
                    bez_eval(s.ctrl, (ld)i / 2048, x, y);
                    ld dx = x - e.x, dy = y - e.y;
                    if (dx * dx + dy * dy < 1e-18L * scale * scale) retrace = true;
                }
            }
            if (retrace) {
                data = "skip retrace";
                Iline = "skip";
                fail.clear();
                out.count("poly:skip-retrace");
            }
        }
        std::string id = out.add(k, payload_head + data);
        out.I(id, Iline);
        out.P(id, fail.empty() ? "ok" : fail);
        if (!fail.empty()) out.count("pfail:" + fail.substr(5, fail.find(' ', 5) - 5));
    }

    // ---- the same curve through Curve::commands
    if (d.via_commands && !dead) {
        std::vector<CurveInstruction> ins;
        auto cmd = [&](char ch) {
            CurveInstruction i;
            i.number = 0;
            i.command = ch;
            ins.push_back(i);
        };
        auto num = [&](double v) {
            CurveInstruction i;
            i.number = v;
            ins.push_back(i);
        };
        bool ok = true;
        for (auto& call : d.calls) {
            const std::string& k = call.kind;
            bool r = call.rel;
            if (k == "segment") { cmd(r ? 'l' : 'L'); num(call.pts[0].x); num(call.pts[0].y); }
            else if (k == "horizontal") { cmd(r ? 'h' : 'H'); num(call.pts[0].x); }
            else if (k == "vertical") { cmd(r ? 'v' : 'V'); num(call.pts[0].x); }
            else if (k == "cubic" && call.pts.size() == 3) { cmd(r ? 'c' : 'C'); for (auto& p : call.pts) { num(p.x); num(p.y); } }
            else if (k == "cubic_smooth" && call.pts.size() == 2) { cmd(r ? 's' : 'S'); for (auto& p : call.pts) { num(p.x); num(p.y); } }
            else if (k == "quadratic" && call.pts.size() == 2) { cmd(r ? 'q' : 'Q'); for (auto& p : call.pts) { num(p.x); num(p.y); } }
            else if (k == "quad_smooth" && call.pts.size() == 1) { cmd(r ? 't' : 'T'); num(call.pts[0].x); num(call.pts[0].y); }
            else if (k == "turn") { cmd('a'); num(call.num[0]); num(call.num[1]); }
            else if (k == "arc" && call.num[0] == call.num[1] && call.num[4] == 0) { cmd('A'); num(call.num[0]); num(call.num[2]); num(call.num[3]); }
            else if (k == "arc") { cmd('E'); for (double v : call.num) num(v); }
            else ok = false;
        }
        if (ok) {
            Curve c2 = {};
            c2.init(d.start, d.tol);
            uint64_t ret = c2.commands(ins.data(), ins.size());
            std::string fail;
            if (ret != ins.size()) fail = "FAIL Curve::commands:return processed " + std::to_string(ret) + " of " + std::to_string(ins.size());
            else if (c2.point_array.count != c.point_array.count) fail = "FAIL Curve::commands:mismatch vertex count differs from the direct calls";
            else {
                for (uint64_t i = 0; i < c.point_array.count && fail.empty(); i++)
                    if (memcmp(&c.point_array[i], &c2.point_array[i], sizeof(Vec2)) != 0)
                        fail = "FAIL Curve::commands:mismatch vertex " + std::to_string(i) + " differs from the direct calls";
                if (fail.empty() && memcmp(&c.last_ctrl, &c2.last_ctrl, sizeof(Vec2)) != 0)
                    fail = "FAIL Curve::commands:mismatch last_ctrl differs from the direct calls";
            }
            std::string s = "cmd";
            for (auto& call : d.calls) s += " " + call.kind + (call.rel ? ":r" : ":a");
            std::string id = out.add("commands", desc + " # cmd | " + s);
            out.I(id, "cmd " + std::to_string(d.calls.size()));
            out.P(id, fail.empty() ? "ok" : fail);
            c2.clear();
        }
    }
    c.clear();
}

// ---------------------------------------------------------------- shapes
// payload: <kind-specific numbers as hex doubles> ; the data part after '|' as for curves
static void emit_arcloop(Out& out, const std::string& kind, const std::string& head, double tol, const ArcInfo& A,
                         const std::vector<Vec2>& v, const std::string& fail_in, double K) {
    std::string fail = fail_in;
    bool fin = true;
    for (auto& p : v) fin = fin && finite2(p);
    if (!fin && fail.empty()) fail = "FAIL " + kind + ":nonfinite vertex is not finite";
    if (fin && fail.empty()) {
        double ratio = arc_ratio(tol, A, v);
        note_ratio(kind + (A.rx == A.ry ? "-circular" : "-elliptical"), ratio);
        if (ratio > K * (1 + 1e-6)) {
            char b[160];
            snprintf(b, sizeof b, "%.3f tol with %llu chords", ratio, (unsigned long long)A.nseg);
            fail = "FAIL " + kind + (A.rx != A.ry ? ":ellipse-span " : ":deviation ") + "deviates " + b;
        }
    }
    std::string id = out.add(kind, head + " | " + (fin ? arc_data(kind, tol, A, v, true) : std::string("skip nonfinite")));
    out.I(id, "arc " + std::to_string(v.size()));
    out.P(id, fail.empty() ? "ok" : fail);
    if (!fail.empty()) out.count("pfail:" + fail.substr(5, fail.find(' ', 5) - 5));
}

static void run_shape(Out& out, const std::string& kind, const std::string& payload) {
    std::string t = payload;
    size_t bar = t.find('|');
    if (bar != std::string::npos) t = t.substr(0, bar);
    std::vector<std::string> w = split_ws(t);
    std::vector<double> a;
    for (auto& s : w) a.push_back(parse_dbl(s));
    std::string head;
    for (size_t i = 0; i < w.size(); i++) head += (i ? " " : "") + w[i];
    if (kind == "rectangle" && a.size() >= 4) {
        Polygon p = rectangle(Vec2{a[0], a[1]}, Vec2{a[2], a[3]}, 0);
        std::string I = "v";
        for (uint64_t i = 0; i < p.point_array.count; i++) I += " " + grid2(p.point_array[i]);
        std::string d = "rect " + w[0] + " " + w[1] + " " + w[2] + " " + w[3];
        std::string id = out.add(kind, head + " | " + d);
        out.I(id, I);
        p.clear();
    } else if (kind == "cross" && a.size() >= 4) {
        Polygon p = cross(Vec2{a[0], a[1]}, a[2], a[3], 0);
        std::string I = "v";
        for (uint64_t i = 0; i < p.point_array.count; i++) I += " " + grid2(p.point_array[i]);
        std::string d = "cross " + w[0] + " " + w[1] + " " + w[2] + " " + w[3];
        std::string id = out.add(kind, head + " | " + d);
        out.I(id, I);
        p.clear();
    } else if (kind == "regular_polygon" && a.size() >= 5) {
        uint64_t sides = (uint64_t)a[3];
        Polygon p = regular_polygon(Vec2{a[0], a[1]}, a[2], sides, a[4], 0);
        std::string fail;
        if (p.point_array.count != sides) fail = "FAIL regular_polygon:count wrong number of vertices";
        ld R = (ld)a[2] / (2 * sinl(M_PIl / sides));
        for (uint64_t i = 0; i < p.point_array.count && fail.empty(); i++) {
            ld ang = (ld)a[4] + M_PIl / sides - 0.5L * M_PIl + i * 2 * M_PIl / sides;
            ld ex = a[0] + R * cosl(ang), ey = a[1] + R * sinl(ang);
            ld tolv = 1e-12L * (fabsl(R) * (1 + fabsl((ld)a[4])) + fabsl((ld)a[0]) + fabsl((ld)a[1]));
            if (fabsl(ex - p.point_array[i].x) > tolv || fabsl(ey - p.point_array[i].y) > tolv)
                fail = "FAIL regular_polygon:vertex vertex " + std::to_string(i) + " is off the exact position by more than 1e-12";
        }
        std::string id = out.add(kind, head + " | regpoly " + std::to_string(sides));
        out.I(id, "regpoly " + std::to_string(p.point_array.count));
        out.P(id, fail.empty() ? "ok" : fail);
        p.clear();
    } else if (kind == "ellipse" && a.size() >= 9) {
        // cx cy rx ry irx iry a0 a1 tol
        double cx = a[0], cy = a[1], rx = a[2], ry = a[3], irx = a[4], iry = a[5], ai = a[6], af = a[7], tol = a[8];
        Polygon p = ellipse(Vec2{cx, cy}, rx, ry, irx, iry, ai, af, tol, 0);
        const double full_angle = (af == ai) ? 2 * M_PI : fabs(af - ai);
        bool full = full_angle == 2 * M_PI;
        bool ring = irx > 0 && iry > 0;
        std::vector<Vec2> v;
        for (uint64_t i = 0; i < p.point_array.count; i++) v.push_back(p.point_array[i]);
        // loop: consecutive vertices of one ellipse (lrx, lry); `closed`: the polygon closes it
        auto loop = [&](double lrx, double lry, std::vector<Vec2> lv, bool closed, const char* which) {
            ArcInfo A = {};
            A.rx = lrx; A.ry = lry; A.cr = 1; A.sr = 0; A.cx = cx; A.cy = cy;
            std::string fail;
            uint64_t got = lv.size();
            if (closed) {  // i * 2pi / num_points, i < num_points
                A.a0 = 0; A.a1 = 2 * M_PI; A.nseg = lv.size();
                lv.push_back(lv[0]);
            } else if (full) {  // i * 2pi / (num_points - 1), both ends present
                A.a0 = 0; A.a1 = 2 * M_PI; A.nseg = lv.size() - 1;
            } else {
                A.a0 = ref_ell_angle(ai, lrx, lry);
                A.a1 = ref_ell_angle(af, lrx, lry);
                A.nseg = lv.size() - 1;
            }
            bool bnd;
            uint64_t np = 1 + expected_arc_points(full_angle, lrx > lry ? lrx : lry, tol, bnd);
            if (np < GDSTK_MIN_POINTS) np = GDSTK_MIN_POINTS;
            if ((lrx == lry || full) && got < np && !(bnd && got + 1 == np))
                fail = "FAIL ellipse:count " + std::to_string(got) + " points, formula gives " + std::to_string(np);
            emit_arcloop(out, "ellipse", head + " # " + which, tol, A, lv, fail, 4.0);
        };
        auto on_ell = [&](const Vec2& q, double lrx, double lry) {
            ld x = ((ld)q.x - cx) / lrx, y = ((ld)q.y - cy) / lry;
            return fabsl(x * x + y * y - 1) < 1e-9L;
        };
        if (ring) {
            size_t n1 = 0;
            while (n1 < v.size() && on_ell(v[n1], rx, ry)) n1++;
            std::vector<Vec2> o(v.begin(), v.begin() + n1), in(v.begin() + n1, v.end());
            bool allin = true;
            for (auto& q : in) allin = allin && on_ell(q, irx, iry);
            if (n1 >= 2 && in.size() >= 2 && allin) {
                std::reverse(in.begin(), in.end());
                loop(rx, ry, o, false, "outer");
                loop(irx, iry, in, false, "inner");
            } else {
                std::string id = out.add("ellipse", head + " | skip split");
                out.I(id, "arc 0");
                out.P(id, "FAIL ellipse:on-curve ring vertices are not an outer loop followed by an inner loop");
            }
            out.count(full ? "ellipse:ring" : "ellipse:ring-slice");
        } else if (full) {
            loop(rx, ry, v, true, "full");
            out.count("ellipse:full");
        } else {
            if (v.empty() || !(v[0].x == cx && v[0].y == cy)) {
                std::string id = out.add("ellipse", head + " | skip centre");
                out.I(id, "arc 0");
                out.P(id, "FAIL ellipse:centre slice does not start at the centre");
            } else {
                std::vector<Vec2> o(v.begin() + 1, v.end());
                loop(rx, ry, o, false, "slice");
            }
            out.count("ellipse:slice");
        }
        p.clear();
    } else if (kind == "racetrack" && a.size() >= 7) {
        // cx cy straight radius inner vertical tol
        double cx = a[0], cy = a[1], L = a[2], r = a[3], ir = a[4], tol = a[6];
        bool vertical = a[5] != 0;
        Polygon p = racetrack(Vec2{cx, cy}, L, r, ir, vertical, tol, 0);
        std::vector<Vec2> v;
        for (uint64_t i = 0; i < p.point_array.count; i++) v.push_back(p.point_array[i]);
        double ia = vertical ? 0 : -M_PI / 2;
        Vec2 dir = vertical ? Vec2{0, L / 2} : Vec2{L / 2, 0};
        Vec2 c1 = Vec2{cx, cy} + dir, c2 = Vec2{cx, cy} - dir;
        auto on_c = [&](const Vec2& q, const Vec2& cc, double rr) {
            ld x = ((ld)q.x - cc.x) / rr, y = ((ld)q.y - cc.y) / rr;
            return fabsl(x * x + y * y - 1) < 1e-9L;
        };
        // layout: np around c1, np around c2 [, v[0], np_i + 1 ... inner]
        size_t total = v.size(), h = 0, npi = 0;
        if (ir > 0) {
            // inner block: 1 (copy of v[0]) + 1 (inner start) + 2*npi
            size_t m = 0;
            while (m < total && (on_c(v[m], c1, r) || on_c(v[m], c2, r))) m++;
            // m = 2h + 1
            h = m >= 1 ? (m - 1) / 2 : 0;
            npi = total >= 2 * h + 2 ? (total - 2 * h - 2) / 2 : 0;
        } else
            h = total / 2;
        bool bnd;
        uint64_t np = 1 + expected_arc_points(M_PI, r, tol, bnd);
        if (np < GDSTK_MIN_POINTS) np = GDSTK_MIN_POINTS;
        std::string fail;
        if (h < np && !(bnd && h + 1 == np))
            fail = "FAIL racetrack:count " + std::to_string(h) + " points per half turn, formula gives " + std::to_string(np);
        if (h >= 2 && 2 * h <= total) {
            ArcInfo A = {};
            A.rx = A.ry = r; A.cr = 1; A.sr = 0; A.nseg = h - 1;
            A.cx = c1.x; A.cy = c1.y; A.a0 = ia; A.a1 = ia + M_PI;
            emit_arcloop(out, "racetrack", head + " # half1", tol, A, std::vector<Vec2>(v.begin(), v.begin() + h), fail, 4.0);
            A.cx = c2.x; A.cy = c2.y; A.a0 = ia + M_PI; A.a1 = ia + 2 * M_PI;
            emit_arcloop(out, "racetrack", head + " # half2", tol, A, std::vector<Vec2>(v.begin() + h, v.begin() + 2 * h), fail, 4.0);
            if (ir > 0 && npi >= 2 && total == 2 * h + 2 * npi + 2) {
                // then: c2 - rad (i = npi..1) written through v2, c1 + rad (i = npi..1) through v1 = v2 + npi
                std::vector<Vec2> i2(v.begin() + 2 * h + 2, v.begin() + 2 * h + 2 + npi);
                std::vector<Vec2> i1(v.begin() + 2 * h + 2 + npi, v.end());
                std::reverse(i1.begin(), i1.end());
                std::reverse(i2.begin(), i2.end());
                A.rx = A.ry = ir; A.nseg = npi - 1;
                A.cx = c1.x; A.cy = c1.y; A.a0 = ia; A.a1 = ia + M_PI;
                emit_arcloop(out, "racetrack", head + " # inner1", tol, A, i1, "", 4.0);
                A.cx = c2.x; A.cy = c2.y; A.a0 = ia + M_PI; A.a1 = ia + 2 * M_PI;
                emit_arcloop(out, "racetrack", head + " # inner2", tol, A, i2, "", 4.0);
            }
        } else {
            std::string id = out.add("racetrack", head + " | skip");
            out.I(id, "arc 0");
            out.P(id, fail.empty() ? "FAIL racetrack:count too few vertices" : fail);
        }
        out.count(ir > 0 ? "racetrack:ring" : "racetrack:solid");
        p.clear();
    } else if (kind == "fillet" && a.size() >= 5) {
        // tol radius corner n x y x y ...   (simple polygon; only corner `corner` gets a radius, the
        // others radius 0 and keep their single vertex, so the arc's vertices are identified by position)
        double tol = a[0], radius = a[1];
        size_t j = (size_t)a[2], n = (size_t)a[3];
        if (a.size() < 4 + 2 * n || j >= n) return;
        Polygon p = {};
        std::vector<Vec2> in;
        for (size_t i = 0; i < n; i++) {
            in.push_back(Vec2{a[4 + 2 * i], a[5 + 2 * i]});
            p.point_array.append(in.back());
        }
        Array<double> radii = {};
        for (size_t i = 0; i < n; i++) radii.append(i == j ? radius : 0.0);
        p.fillet(radii, tol);
        radii.clear();
        std::vector<Vec2> v;
        for (uint64_t i = 0; i < p.point_array.count; i++) v.push_back(p.point_array[i]);
        std::string fail;
        if (v.size() < n) fail = "FAIL fillet:count fewer vertices than corners";
        for (size_t i = 0; i < j && fail.empty(); i++)
            if (!eqv(v[i], in[i])) fail = "FAIL fillet:corner a corner with radius 0 moved";
        for (size_t i = j + 1; i < n && fail.empty(); i++)
            if (!eqv(v[v.size() - (n - i)], in[i])) fail = "FAIL fillet:corner a corner with radius 0 moved";
        size_t take = fail.empty() ? v.size() - (n - 1) : 0;
        Vec2 p0 = in[(j + n - 1) % n], p1 = in[j], p2 = in[(j + 1) % n];
        Vec2 v0 = p1 - p0, v1 = p2 - p1;
        ld l0 = sqrtl((ld)v0.x * v0.x + (ld)v0.y * v0.y), l1 = sqrtl((ld)v1.x * v1.x + (ld)v1.y * v1.y);
        ld ux0 = v0.x / l0, uy0 = v0.y / l0, ux1 = v1.x / l1, uy1 = v1.y / l1;
        ld dotv = ux0 * ux1 + uy0 * uy1;
        if (dotv > 1) dotv = 1;
        if (dotv < -1) dotv = -1;
        ld theta = acosl(dotv);
        ld tant = tanl(theta / 2), cost = cosl(theta / 2);
        // documented geometry: circle of the requested radius tangent to both edges, the radius reduced
        // so that each tangent length stays below half the edge (minus the tolerance)
        ld maxlen = radius * tant, rad = radius;
        if (maxlen > 0.5L * (l0 - tol)) { maxlen = 0.5L * (l0 - tol); rad = maxlen / tant; }
        if (maxlen > 0.5L * (l1 - tol)) { maxlen = 0.5L * (l1 - tol); rad = maxlen / tant; }
        ld bx = ux1 - ux0, by = uy1 - uy0, bl = sqrtl(bx * bx + by * by);
        ld ccx = p1.x + bx / bl * rad / cost, ccy = p1.y + by / bl * rad / cost;
        ld a0 = atan2l(p1.y - uy0 * maxlen - ccy, p1.x - ux0 * maxlen - ccx);
        ld a1 = atan2l(p1.y + uy1 * maxlen - ccy, p1.x + ux1 * maxlen - ccx);
        if (a1 - a0 > M_PIl) a1 -= 2 * M_PIl; else if (a1 - a0 < -M_PIl) a1 += 2 * M_PIl;
        std::string hd = head;
        if (!fail.empty() || take == 0) {
            std::string id = out.add("fillet", hd + " | skip");
            out.I(id, "arc 0");
            out.P(id, fail.empty() ? "FAIL fillet:count no vertex for the corner" : fail);
        } else if (take == 1) {
            // the corner itself is kept: its distance to the fillet arc is rad (1/cos(theta/2) - 1)
            ld dev = rad > 0 ? rad * (1 / cost - 1) : 0;
            note_ratio("fillet-corner-kept", (double)(dev / tol));
            std::string f;
            if (!eqv(v[j], p1)) f = "FAIL fillet:corner single vertex is not the corner";
            else if (dev > 7.0L * tol) f = "FAIL fillet:deviation kept corner is farther than 7 tol from the fillet arc";
            std::string id = out.add("fillet", hd + " | skip corner-kept");
            out.I(id, "arc 1");
            out.P(id, f.empty() ? "ok" : f);
            out.count("fillet:corner-kept");
        } else {
            std::vector<Vec2> cv(v.begin() + j, v.begin() + j + take);
            ArcInfo A = {};
            A.rx = A.ry = (double)rad; A.cr = 1; A.sr = 0; A.cx = (double)ccx; A.cy = (double)ccy;
            A.a0 = (double)a0; A.a1 = (double)a1; A.nseg = take - 1;
            emit_arcloop(out, "fillet", hd, tol, A, cv, "", 7.0);
            out.count("fillet:arc");
        }
        p.clear();
    }
}

static void bezier_single_point(Out& out);
// ---------------------------------------------------------------- case entry (also used by corpus / replay)
static void run_case(Out& out, const std::string& kind, const std::string& payload) {
    if (kind == "rectangle" || kind == "cross" || kind == "regular_polygon" || kind == "ellipse" || kind == "racetrack" || kind == "fillet") {
        run_shape(out, kind, payload);
        return;
    }
    CurveDesc d;
    if (!parse_desc(payload, d)) {
        out.count("bad-desc");
        return;
    }
    for (auto& c : d.calls)
        if (c.kind == "bezier" && c.pts.size() < 2) {
            bezier_single_point(out);
            return;
        }
    run_curve(out, d);
}

// ---------------------------------------------------------------- generators
struct Gen {
    Rng& g;
    double s;      // feature size (power of two)
    double unit;   // coordinate grid s/1024
    explicit Gen(Rng& r) : g(r) {
        int k = (int)g.range(-6, 9);
        s = ldexp(1.0, k);
        unit = s / 1024;
    }
    double coord(int64_t lo, int64_t hi) { return (double)g.range(lo, hi) * unit; }
    Vec2 rnd() { return Vec2{coord(-1024, 1024), coord(-1024, 1024)}; }
    // n control points after the start (offsets from the start), by shape class
    std::vector<Vec2> points(size_t n, std::string& cls) {
        std::vector<Vec2> p(n);
        switch (g.below(9)) {
            case 0:
            case 1: {  // control directions within a quarter turn: increments in an open quadrant cone
                cls = "fan";
                Vec2 acc = {0, 0};
                double cx = (double)g.range(1, 8), cy = (double)g.range(0, 8);
                int64_t sg = g.coin() ? 1 : -1, sh = g.coin() ? 1 : -1;
                for (size_t i = 0; i < n; i++) {
                    // directions (a, b) with a > 0, b >= 0 rotated into one quadrant: span < 90 degrees
                    double a = (double)g.range(1, 400), b = (double)g.range(0, 400);
                    (void)cx; (void)cy;
                    acc.x += sg * a * unit;
                    acc.y += sh * b * unit * (g.chance(80) ? 1 : 0);
                    p[i] = acc;
                }
            } break;
            case 2: {  // general position
                cls = "random";
                for (auto& q : p) q = rnd();
            } break;
            case 3: {  // collinear, possibly doubling back
                cls = "collinear";
                int64_t dx = g.range(-8, 8), dy = g.range(-8, 8);
                if (dx == 0 && dy == 0) dx = 1;
                for (auto& q : p) {
                    int64_t m = g.range(-100, 100);
                    q = Vec2{(double)(dx * m) * unit, (double)(dy * m) * unit};
                }
            } break;
            case 4: {  // near collinear: one grid unit off a line, monotone
                cls = "near-collinear";
                int64_t dx = g.range(1, 8), dy = g.range(-8, 8);
                int64_t m = 0;
                for (auto& q : p) {
                    m += g.range(1, 60);
                    q = Vec2{(double)(dx * m) * unit, (double)(dy * m + g.range(-1, 1)) * unit};
                }
            } break;
            case 5: {  // coincident control points
                cls = "coincident";
                Vec2 base = rnd();
                for (size_t i = 0; i < n; i++) p[i] = (i > 0 && g.chance(50)) ? p[i - 1] : (g.chance(30) ? Vec2{0, 0} : base = rnd());
                if (g.chance(15)) for (auto& q : p) q = Vec2{0, 0};
            } break;
            case 6: {  // hairpin / cusp: out and back with a small offset
                cls = "hairpin";
                double L = coord(200, 1024), w = (double)g.range(0, 3) * unit;
                for (size_t i = 0; i < n; i++) {
                    double f = (i + 1 < n) ? 1.0 : 0.0;
                    p[i] = Vec2{L * f, (i * 2 >= n) ? w : 0};
                }
            } break;
            case 7: {  // tiny: the whole section is a few grid units
                cls = "tiny";
                for (auto& q : p) q = Vec2{(double)g.range(-3, 3) * unit, (double)g.range(-3, 3) * unit};
            } break;
            default: {  // smooth S / loop shapes
                cls = "loop";
                for (size_t i = 0; i < n; i++) {
                    double ang = (double)(i + 1) * (double)g.range(1, 6) * 0.5;
                    p[i] = Vec2{round(cos(ang) * 600) * unit, round(sin(ang) * 600) * unit};
                }
            }
        }
        return p;
    }
    double tolerance() {  // 1e-6 .. 10 of the feature size, log uniform
        double u = -6.0 + 7.0 * (double)g.below(1000001) / 1e6;
        return s * pow(10.0, u);
    }
    double angle_any() {
        switch (g.below(6)) {
            case 0: return (double)g.range(-8, 8) * (M_PI / 4);
            case 1: return ((double)g.below(2000001) / 1e6 - 1.0) * 4 * M_PI;  // up to two turns, any sign
            case 2: return ((double)g.below(2000001) / 1e6 - 1.0) * 0.1;
            case 3: return (g.coin() ? 1 : -1) * (2 * M_PI + (double)g.below(1000) * 1e-3);
            default: return ((double)g.below(2000001) / 1e6 - 1.0) * M_PI;
        }
    }
};

static CurveDesc gen_curve(Rng& g, Out& out, bool thorough) {
    Gen G(g);
    CurveDesc d;
    d.tol = G.tolerance();
    d.start = g.chance(30) ? Vec2{0, 0} : G.rnd();
    size_t nc = 1 + (size_t)g.below(4);
    bool cmdable = g.chance(35);
    d.via_commands = cmdable;
    Vec2 cur = d.start;  // grid estimate of the current point (exact while no arc occurred)
    bool exact = true;
    auto snap = [&](Vec2 v) { return Vec2{round(v.x / G.unit) * G.unit, round(v.y / G.unit) * G.unit}; };
    for (size_t ci = 0; ci < nc; ci++) {
        Call c;
        c.rel = g.coin();
        int pick = (int)g.below(cmdable ? 9 : 16);
        std::string cls;
        auto place = [&](std::vector<Vec2> offs) {  // offsets -> arguments (relative or absolute)
            for (auto& o : offs) c.pts.push_back(c.rel ? o : snap(cur) + o);
            if (!offs.empty()) cur = snap(cur) + offs.back();
        };
        double tolratio = d.tol / G.s;
        switch (pick) {
            case 0: c.kind = "segment"; place(G.points(1, cls)); break;
            case 1: c.kind = g.coin() ? "horizontal" : "vertical"; {
                double v = G.coord(-1024, 1024);
                bool h = c.kind == "horizontal";
                c.pts.push_back(Vec2{c.rel ? v : (h ? snap(cur).x : snap(cur).y) + v, 0});
                if (h) cur.x = snap(cur).x + v; else cur.y = snap(cur).y + v;
            } break;
            case 2: c.kind = "cubic"; place(G.points(3, cls)); break;
            case 3: c.kind = "cubic_smooth"; place(G.points(2, cls)); break;
            case 4: c.kind = "quadratic"; place(G.points(2, cls)); break;
            case 5: c.kind = "quad_smooth"; place(G.points(1, cls)); break;
            case 6: {  // turn
                c.kind = "turn";
                c.rel = false;
                double r = G.s * (double)g.range(1, 64) / 16;
                double ang = G.angle_any();
                if (ang == 0) ang = 1;
                // keep the number of chords reasonable
                double lim = (thorough ? 6000.0 : 1500.0) * 2 * sqrt(2 * std::min(1.0, d.tol / r));
                if (fabs(ang) > lim) ang = ang > 0 ? lim : -lim;
                c.num = {r, ang};
                cur = cur + Vec2{r, r};
                exact = false;
            } break;
            case 7:
            case 8: {  // arc: circular or elliptical, any rotation
                c.kind = "arc";
                c.rel = false;
                double rx = G.s * (double)g.range(1, 64) / 16, ry = rx;
                int m = (int)g.below(5);
                if (m == 0) ry = G.s * (double)g.range(1, 64) / 16;
                if (m == 1) ry = rx * (g.coin() ? 0.01 : 100);
                double rot = (m == 0 || m == 1 || g.chance(30)) ? (g.chance(50) ? G.angle_any() : atan2(4.0, 3.0)) : 0;
                if (cmdable && rx == ry) rot = 0;
                double a0 = G.angle_any(), span = G.angle_any();
                if (span == 0) span = 0.5;
                if (m == 1 && g.chance(50)) {  // a short stretch around an end of the long axis
                    a0 = (ry < rx ? 0.0 : M_PI / 2) + (g.coin() ? M_PI : 0.0) + rot - 0.03 * (double)g.below(100) / 100;
                    span = 0.06 * (double)(1 + g.below(100)) / 100;
                }
                double rm = std::max(rx, ry);
                double lim = (thorough ? 6000.0 : 1500.0) * 2 * sqrt(2 * std::min(1.0, d.tol / rm));
                if (fabs(span) > lim) span = span > 0 ? lim : -lim;
                c.num = {rx, ry, a0, a0 + span, rot};
                cur = cur + Vec2{rx, ry};
                exact = false;
            } break;
            case 9: c.kind = "segments"; place(G.points(1 + g.below(3), cls)); break;
            case 10: c.kind = g.coin() ? "horizontals" : "verticals"; {
                size_t n = 1 + g.below(3);
                bool h = c.kind == "horizontals";
                double base = h ? snap(cur).x : snap(cur).y, last = 0;
                for (size_t i = 0; i < n; i++) {
                    last = G.coord(-1024, 1024);
                    c.pts.push_back(Vec2{c.rel ? last : base + last, 0});
                }
                if (h) cur.x = base + last; else cur.y = base + last;
            } break;
            case 11: {  // several sections in one call
                int w = (int)g.below(4);
                size_t per = w == 0 ? 3 : (w == 3 ? 1 : 2);
                c.kind = w == 0 ? "cubic" : (w == 1 ? "cubic_smooth" : (w == 2 ? "quadratic" : "quad_smooth"));
                std::vector<Vec2> all;
                Vec2 base = {0, 0};
                size_t ns = 2 + g.below(2);
                for (size_t sI = 0; sI < ns; sI++) {
                    std::vector<Vec2> o = G.points(per, cls);
                    for (auto& q : o) all.push_back(base + q);
                    base = all.back();
                }
                place(all);
            } break;
            case 12: c.kind = "quad_smooth1"; place(G.points(1, cls)); break;
            case 13: {  // general Bezier, 2..8 points
                c.kind = "bezier";
                place(G.points(2 + g.below(7), cls));
            } break;
            case 14: {  // interpolation
                c.kind = "interp";
                c.cycle = g.chance(25);
                size_t n = 1 + g.below(4);
                std::vector<Vec2> o = G.points(n, cls);
                // hobby's system is singular for repeated points: keep them distinct and off the start
                bool bad = false;
                for (size_t i = 0; i < o.size(); i++) {
                    if (o[i].x == 0 && o[i].y == 0) bad = true;
                    for (size_t j = 0; j < i; j++) if (o[i].x == o[j].x && o[i].y == o[j].y) bad = true;
                }
                if (bad) { o.clear(); Vec2 acc = {0, 0}; for (size_t i = 0; i < n; i++) { acc = acc + Vec2{G.coord(1, 500), G.coord(-500, 500)}; o.push_back(acc); } cls = "fan"; }
                const Vec2 before = cur;
                place(o);
                if (c.cycle) cur = before;  // a closed interpolation returns to its first point
                double tin = g.chance(70) ? 1.0 : 0.75 + (double)g.below(200) / 100, tout = g.chance(70) ? 1.0 : 0.75 + (double)g.below(200) / 100;
                c.num = {tin, tout, g.chance(70) ? 1.0 : (double)g.below(300) / 100, g.chance(70) ? 1.0 : (double)g.below(300) / 100};
                if (g.chance(30))  // tangent directions imposed at some of the points (closed curves included)
                    for (size_t i = 0; i <= o.size(); i++) {
                        c.num.push_back(g.chance(40) ? 1.0 : 0.0);
                        c.num.push_back(G.angle_any());
                    }
            } break;
            default: {  // parametric: a cubic through a callback; f(0) = 0 (relative) or the current point
                c.kind = "param";
                std::vector<Vec2> o = G.points(3, cls);
                if (!exact) c.rel = true;  // absolute needs f(0) == current point exactly
                c.pts.push_back(c.rel ? Vec2{0, 0} : cur);
                for (auto& q : o) c.pts.push_back(c.rel ? q : snap(cur) + q);
                cur = snap(cur) + o.back();
            }
        }
        if (!cls.empty()) out.count("ctrl:" + cls);
        (void)tolratio;
        d.calls.push_back(c);
    }
    char b[32];
    snprintf(b, sizeof b, "tol/feature:1e%d", (int)floor(log10(d.tol / G.s)));
    out.count(b);
    return d;
}

static std::string dd(double v) { return hex_dbl(v); }

static void gen_shape(Rng& g, Out& out, bool thorough) {
    Gen G(g);
    (void)thorough;
    switch (g.below(7)) {
        case 0: {
            Vec2 a = G.rnd(), b = G.rnd();
            run_case(out, "rectangle", dd(a.x) + " " + dd(a.y) + " " + dd(b.x) + " " + dd(b.y));
        } break;
        case 1: {
            Vec2 c = G.rnd();
            double full = G.coord(2, 2048), arm = G.coord(1, 1024);
            run_case(out, "cross", dd(c.x) + " " + dd(c.y) + " " + dd(full) + " " + dd(arm));
        } break;
        case 2: {
            Vec2 c = G.rnd();
            double side = G.s * (double)g.range(1, 1000) / 100;
            uint64_t sides = 3 + g.below(g.chance(10) ? 500 : 12);
            double rot = G.angle_any();
            run_case(out, "regular_polygon", dd(c.x) + " " + dd(c.y) + " " + dd(side) + " " + dd((double)sides) + " " + dd(rot));
        } break;
        case 3:
        case 4: {
            Vec2 c = G.rnd();
            double rx = G.s * (double)g.range(4, 64) / 16, ry = g.chance(50) ? rx : G.s * (double)g.range(4, 64) / 16;
            double irx = 0, iry = 0;
            if (g.chance(40)) { irx = rx * (double)g.range(1, 7) / 8; iry = ry * (double)g.range(1, 7) / 8; if (g.chance(50)) iry = irx * ry / rx; }
            double a0 = 0, a1 = 0;
            if (g.chance(50)) { a0 = G.angle_any(); double sp = G.angle_any(); if (fabs(sp) > 2 * M_PI) sp = fmod(sp, 2 * M_PI); if (sp == 0) sp = 1; a1 = a0 + sp; }
            double tol = G.tolerance();
            if (tol < 1e-5 * G.s) tol = 1e-5 * G.s;
            run_case(out, "ellipse", dd(c.x) + " " + dd(c.y) + " " + dd(rx) + " " + dd(ry) + " " + dd(irx) + " " + dd(iry) + " " + dd(a0) + " " + dd(a1) + " " + dd(tol));
        } break;
        case 5: {
            Vec2 c = G.rnd();
            double L = G.coord(0, 2048), r = G.s * (double)g.range(4, 64) / 16, ir = g.chance(50) ? 0 : r * (double)g.range(1, 7) / 8;
            double tol = G.tolerance();
            if (tol < 1e-5 * G.s) tol = 1e-5 * G.s;
            run_case(out, "racetrack", dd(c.x) + " " + dd(c.y) + " " + dd(L) + " " + dd(r) + " " + dd(ir) + " " + dd(g.coin() ? 1.0 : 0.0) + " " + dd(tol));
        } break;
        default: {
            // convex polygon from sorted directions, or an L shape (one reflex corner)
            size_t n = 3 + g.below(5);
            std::vector<Vec2> pts;
            if (g.chance(70)) {
                std::vector<double> angs;
                for (size_t i = 0; i < n; i++) angs.push_back((double)g.below(36000) / 36000.0 * 2 * M_PI);
                std::sort(angs.begin(), angs.end());
                for (size_t i = 0; i < n; i++) {
                    if (i > 0 && angs[i] - angs[i - 1] < 0.05) continue;
                    pts.push_back(Vec2{round(cos(angs[i]) * 800) * G.unit, round(sin(angs[i]) * 800) * G.unit});
                }
                if (pts.size() < 3) pts = {Vec2{0, 0}, Vec2{G.s, 0}, Vec2{0, G.s}};
            } else {
                double u = G.s;
                pts = {Vec2{0, 0}, Vec2{2 * u, 0}, Vec2{2 * u, u}, Vec2{u, u}, Vec2{u, 2 * u}, Vec2{0, 2 * u}};
            }
            double tol = G.tolerance();
            if (tol < 1e-5 * G.s) tol = 1e-5 * G.s;
            if (tol > 0.2 * G.s) tol = 0.2 * G.s;
            double radius = G.s * (double)g.range(1, 400) / 200;
            std::string s = dd(tol) + " " + dd(radius) + " " + dd((double)g.below(pts.size())) + " " + dd((double)pts.size());
            for (auto& p : pts) s += " " + dd(p.x) + " " + dd(p.y);
            run_case(out, "fillet", s);
        }
    }
}

// the inputs of the defects F11 / F12 / F17 (fixed by 66f871b / 4b3b094 / 7a14b8c) run first on every campaign
// as regression cases
static void known_inputs(Out& out) {
    {  // F11: hairpin at tolerance 0.01
        CurveDesc d;
        d.tol = 0.01;
        Call c;
        c.kind = "cubic";
        c.pts = {Vec2{1, 0}, Vec2{1, 0.001}, Vec2{0, 0.001}};
        d.calls.push_back(c);
        run_curve(out, d);
    }
    {  // F11: a curve smaller than the tolerance, control directions within a quarter turn
        CurveDesc d;
        d.tol = 0.01;
        Call c;
        c.kind = "cubic";
        c.pts = {Vec2{ldexp(1.0, -10), 0}, Vec2{ldexp(2.0, -10), ldexp(1.0, -10)}, Vec2{ldexp(3.0, -10), ldexp(3.0, -10)}};
        d.calls.push_back(c);
        run_curve(out, d);
    }
    {  // F12 as first probed: 4 vertices over a parameter span of 0.32 rad before the fix (the deviation was
       // only 0.18 tol: this stretch of the ellipse is nearly straight).
        CurveDesc d;
        d.tol = 0.01;
        Call c;
        c.kind = "arc";
        c.num = {100, 1, 0.01, 0.02, 0};
        d.calls.push_back(c);
        run_curve(out, d);
    }
    {  // F12 around the end of the major axis (radius of curvature 0.01): 3 chords over 2.2 rad of parameter
       // before the fix (673 tol)
        CurveDesc d;
        d.tol = 0.01;
        Call c;
        c.kind = "arc";
        c.num = {100, 1, -0.02, 0.02, 0};
        d.calls.push_back(c);
        run_curve(out, d);
    }
    {  // F17, then a smooth section that consumes the wrong last_ctrl
        CurveDesc d;
        d.tol = 0.01;
        d.start = Vec2{100, 100};
        Call c;
        c.kind = "bezier";
        c.rel = true;
        c.pts = {Vec2{1, 0}, Vec2{2, 1}, Vec2{3, 0}};
        d.calls.push_back(c);
        Call s;
        s.kind = "cubic_smooth";
        s.rel = true;
        s.pts = {Vec2{1, 1}, Vec2{2, 0}};
        d.calls.push_back(s);
        run_curve(out, d);
    }
}

// "Single Bezier section defined by any number of control points": one point (a straight line written as a
// Bezier) makes append_bezier evaluate an empty second-derivative polygon: eval_bezier(t, d2p, 0) loops from
// count - 1 = 2^64 - 1.  Run in a child; the model answers None (out-of-bounds read) for fewer than 2 points.
static void bezier_single_point(Out& out) {
    CurveDesc d;
    d.tol = 0.01;
    Call c;
    c.kind = "bezier";
    c.pts = {Vec2{1, 1}};
    d.calls.push_back(c);
    std::string r = in_child([](FILE* o) {
        Curve cv = {};
        cv.init(Vec2{0, 0}, 0.01);
        Array<Vec2> p = {};
        p.append(Vec2{1, 1});
        cv.bezier(p, false);
        fprintf(o, "returned %llu", (unsigned long long)cv.point_array.count);
    });
    std::string data = "poly " + std::to_string(g_budget) + " " + hex_dbl(d.tol) + " " + hd2(Vec2{0, 0}) + " " + hd2(Vec2{0, 0}) +
                       " bezier 0 0 1 " + hd2(Vec2{1, 1}) + " 0 0";
    std::string id = out.add("bezier", fmt_desc(d) + " # single | " + data);
    bool crashed = r.compare(0, 5, "CRASH") == 0 || r == "HANG";
    out.I(id, crashed ? "crash" : r);
    out.P(id, crashed ? "FAIL Curve::bezier:single-point-crash bezier() with one control point: " + r : "ok");
}

int main(int argc, char** argv) {
    if (argc < 4) {
        fprintf(stderr, "usage: c15 seed tier outdir [corpus] [replay]\n");
        return 2;
    }
    uint64_t seed = strtoull(argv[1], NULL, 10);
    bool thorough = strcmp(argv[2], "thorough") == 0;
    if (thorough) g_budget = 384;
    set_error_logger(NULL);
    Out out;
    out.open(argv[3]);
    if (argc > 5) {
        std::string k, p;
        if (load_replay(argv[5], k, p)) run_case(out, k, p);
        out.close();
        return 0;
    }
    for (auto& c : load_corpus(argc > 4 ? argv[4] : NULL)) run_case(out, c.first, c.second);
    known_inputs(out);
    bezier_single_point(out);
    Rng g(seed);
    long NC = thorough ? 6000 : 200, NS = thorough ? 3000 : 120;
    for (long i = 0; i < NC; i++) {
        CurveDesc d = gen_curve(g, out, thorough);
        run_curve(out, d);
    }
    for (long i = 0; i < NS; i++) gen_shape(g, out, thorough);
    out.count("grid:inexact-conversions", g_inexact);
    for (auto& kv : g_stats.maxratio) out.count("maxdev-permille:" + kv.first, (long)llround(kv.second * 1000));
    out.close();
    return 0;
}
