// C15 harness: Curve sections (segment/horizontal/vertical/cubic/cubic_smooth/quadratic/
// quadratic_smooth/bezier/interpolation/arc/turn/parametric/commands) and the shape primitives
// (rectangle, cross, regular_polygon, ellipse, racetrack, Polygon::fillet) of the real library.
//
// One generated "curve" is a start point, a tolerance and a sequence of construction calls.  The
// harness runs it on a gdstk::Curve and emits ONE CASE PER CALL:
//     payload = <description of the whole curve> # <index of the call> | <data for the model driver>
// The description alone is what a replay re-parses; the data part carries the implementation's
// state before the call and the vertices it appended (exact: doubles are dyadic; vertices as
// integers on the 2^-40 grid, with the number of inexact conversions counted in the stats).
//   I line : n0=<first step NaN?> E=<end point> C=<last_ctrl>   (grid integers)   [polynomial calls]
//            arc <number of vertices>                                              [arcs, shapes]
//   P line : checks the harness can make alone: finite vertices, first vertex = previous end point,
//            last vertex = requested end point, last_ctrl as documented, chord count / deviation of
//            arcs in floating point, commands() == direct calls, regular polygon vertices.
//   Polygon::fillet: every fillet case (whole polygon "P tol n x y .. m r .." or the older single-corner form) is decided
//            from the ARGUMENTS alone (see "Polygon::fillet: oracle from the arguments alone" below): effective radius per
//            corner, tangent points, arc centre, runs of neighbouring corners apart, convex input -> result inside it and
//            simple, area = original -/+ corner cut-offs.  Sub-cases "# corners", "# global" (data "skip ..": the driver
//            answers "arc *") and "# corner <i>" (one run as an arc for the driver's exact on-circle / deviation test).
//            Keys fillet:count / overlap / radius / tangent-point / corner / sagitta / outside / self-intersection / area /
//            repeated-vertex-crash; fillet:deviation is ONLY the recorded one-point case (corner kept > 7 tol from its arc).
// The driver (ocaml/c15_driver.ml) answers M (model post-state, NaN prediction at t=0) and
// S (vertices on the exact curve in order; polyline within K*tol of it, exact arithmetic).
#include <algorithm>
#include <math.h>
#include <gdstk/gdstk.hpp>
#include "common.hpp"

using namespace gdstk;

typedef long double ld;
// Reference (independent of src/utils.cpp): the parametric angle t of the ellipse point x = rx cos t, y = ry sin t
// that lies in direction `angle` from the centre, continuous in `angle` and equal to it at every multiple of pi/2:
// t = angle - w + atan2(rx sin w, ry cos w) with w = angle wrapped to [-pi, pi).
static double ref_ell_angle(double angle, double rx, double ry) {
    if (angle == 0 || angle == M_PI || rx == ry) return angle;
    double w = fmod(angle + M_PI, 2 * M_PI);
    if (w < 0) w += 2 * M_PI;
    w -= M_PI;
    return (angle - w) + atan2(rx * sin(angle), ry * cos(angle));
}

static const int GRID_BITS = 40;
static long g_inexact = 0;
static size_t g_budget = 96;  // exact distance samples per arc (quick); thorough: 384

// ---------------------------------------------------------------- numbers <-> text
static bool finite2(const Vec2& v) { return std::isfinite(v.x) && std::isfinite(v.y); }
static std::string grid(double x) {  // integer on the 2^-40 grid (nearest); "nan" if not finite
    if (!std::isfinite(x)) return "nan";
    double s = ldexp(x, GRID_BITS);
    if (fabs(s) >= 9.0e18) return "nan";
    long long r = llround(s);
    if ((double)r != s) g_inexact++;
    return hex_i64(r);
}
static std::string grid2(const Vec2& v) { return grid(v.x) + " " + grid(v.y); }
static std::string hd2(const Vec2& v) { return hex_dbl(v.x) + " " + hex_dbl(v.y); }
static std::string grid60(long double t) {  // parameters in [0,1] on the 2^-60 grid
    if (!std::isfinite((double)t)) return "nan";
    return hex_i64(llroundl(ldexpl(t, 60)));
}
static double parse_dbl(const std::string& s) { return bits_dbl(strtoull(s.c_str(), NULL, 16)); }
static bool same_bits_or_zero(double a, double b) { return a == b; }  // +0 == -0 accepted
static bool eqv(const Vec2& a, const Vec2& b) { return same_bits_or_zero(a.x, b.x) && same_bits_or_zero(a.y, b.y); }

// ---------------------------------------------------------------- description of a curve
struct Call {
    std::string kind;  // segment segments horizontal horizontals vertical verticals cubic cubic_smooth
                       // quadratic quad_smooth1 quad_smooth bezier interp arc turn param
    bool rel = false, cycle = false;
    std::vector<Vec2> pts;     // points (horizontal/vertical: x or y in .x)
    std::vector<double> num;   // arc: rx ry a0 a1 rot; turn: r angle; interp: tin tout icurl fcurl
};
struct CurveDesc {
    double tol = 0.01;
    Vec2 start = {0, 0};
    bool via_commands = false;  // additionally build through Curve::commands and compare
    std::vector<Call> calls;
};

static std::string fmt_call(const Call& c) {
    std::string s = c.kind + " " + (c.rel ? "1" : "0") + " " + (c.cycle ? "1" : "0") + " " + std::to_string(c.pts.size());
    for (auto& p : c.pts) s += " " + hex_dbl(p.x) + " " + hex_dbl(p.y);
    s += " " + std::to_string(c.num.size());
    for (double d : c.num) s += " " + hex_dbl(d);
    return s;
}
static std::string fmt_desc(const CurveDesc& d) {
    std::string s = hex_dbl(d.tol) + " " + hex_dbl(d.start.x) + " " + hex_dbl(d.start.y) + " " + (d.via_commands ? "1" : "0") +
                    " " + std::to_string(d.calls.size());
    for (auto& c : d.calls) s += " ; " + fmt_call(c);
    return s;
}
static std::vector<std::string> split_ws(const std::string& s) {
    std::vector<std::string> v;
    size_t i = 0;
    while (i < s.size()) {
        while (i < s.size() && s[i] == ' ') i++;
        size_t j = i;
        while (j < s.size() && s[j] != ' ') j++;
        if (j > i) v.push_back(s.substr(i, j - i));
        i = j;
    }
    return v;
}
static bool parse_desc(const std::string& text, CurveDesc& d) {
    std::string t = text;
    size_t bar = t.find('|');
    if (bar != std::string::npos) t = t.substr(0, bar);
    size_t hash = t.find('#');
    if (hash != std::string::npos) t = t.substr(0, hash);
    std::vector<std::string> w = split_ws(t);
    size_t i = 0;
    auto need = [&](size_t n) { return i + n <= w.size(); };
    if (!need(5)) return false;
    d.tol = parse_dbl(w[i++]);
    d.start.x = parse_dbl(w[i++]);
    d.start.y = parse_dbl(w[i++]);
    d.via_commands = w[i++] == "1";
    size_t nc = strtoul(w[i++].c_str(), NULL, 10);
    for (size_t k = 0; k < nc; k++) {
        if (!need(1) || w[i] != ";") return false;
        i++;
        if (!need(4)) return false;
        Call c;
        c.kind = w[i++];
        c.rel = w[i++] == "1";
        c.cycle = w[i++] == "1";
        size_t np = strtoul(w[i++].c_str(), NULL, 10);
        if (!need(2 * np + 1)) return false;
        for (size_t j = 0; j < np; j++) {
            Vec2 p;
            p.x = parse_dbl(w[i++]);
            p.y = parse_dbl(w[i++]);
            c.pts.push_back(p);
        }
        size_t nn = strtoul(w[i++].c_str(), NULL, 10);
        if (!need(nn)) return false;
        for (size_t j = 0; j < nn; j++) c.num.push_back(parse_dbl(w[i++]));
        d.calls.push_back(c);
    }
    return true;
}

// ---------------------------------------------------------------- exact-ish curve evaluation (long double)
static void bez_eval(const std::vector<Vec2>& c, ld t, ld& x, ld& y) {
    ld px[16], py[16];
    size_t n = c.size();
    for (size_t i = 0; i < n; i++) {
        px[i] = c[i].x;
        py[i] = c[i].y;
    }
    for (size_t j = n - 1; j > 0; j--)
        for (size_t i = 0; i < j; i++) {
            px[i] = (1 - t) * px[i] + t * px[i + 1];
            py[i] = (1 - t) * py[i] + t * py[i + 1];
        }
    x = px[0];
    y = py[0];
}
static ld bez_dist2(const std::vector<Vec2>& c, ld t, const Vec2& v) {
    ld x, y;
    bez_eval(c, t, x, y);
    return (x - v.x) * (x - v.x) + (y - v.y) * (y - v.y);
}
static ld seg_dist(ld px, ld py, const Vec2& a, const Vec2& b) {
    ld dx = (ld)b.x - a.x, dy = (ld)b.y - a.y, wx = px - a.x, wy = py - a.y;
    ld L = dx * dx + dy * dy, s = wx * dx + wy * dy;
    if (s <= 0 || L == 0) return sqrtl(wx * wx + wy * wy);
    if (s >= L) return sqrtl((px - b.x) * (px - b.x) + (py - b.y) * (py - b.y));
    ld cr = wx * dy - wy * dx;
    return fabsl(cr) / sqrtl(L);
}
// smallest parameter in (tlo, thi] at which the curve passes (numerically) through v; -1 if none.
// Greedy smallest witnesses succeed whenever an increasing witness sequence exists at all.  Two levels
// of scanning separate the close minima of a hairpin (the two branches) before the ternary search.
struct TSearch {
    const std::vector<Vec2>& c;
    const Vec2& v;
    ld tlo, accept;
    ld best_f, best_t;
    bool final_vertex;
    ld scan(ld lo, ld hi, int depth) {
        const int G = 128;
        ld f[129], ts[129];
        bool allzero = true;
        for (int i = 0; i <= G; i++) {
            ts[i] = lo + (hi - lo) * i / G;
            f[i] = bez_dist2(c, ts[i], v);
            allzero = allzero && f[i] <= accept;
        }
        if (allzero && depth == 0) return lo + (hi - lo) / 2;  // the curve rests at v over the whole window
        for (int i = 0; i <= G; i++) {
            bool lmin = (i == 0 || f[i] <= f[i - 1]) && (i == G || f[i] <= f[i + 1]);
            if (!lmin) continue;
            ld a = ts[i > 1 ? i - 2 : 0], b = ts[i + 2 < G ? i + 2 : G];
            if (depth < 1) {
                ld r = scan(a, b, depth + 1);
                if (r >= 0) return r;
                continue;
            }
            for (int it = 0; it < 100; it++) {  // ternary search in the bracket
                ld m1 = a + (b - a) / 3, m2 = b - (b - a) / 3;
                if (bez_dist2(c, m1, v) <= bez_dist2(c, m2, v)) b = m2; else a = m1;
            }
            ld tm = (a + b) / 2;
            if (tm < tlo + ldexpl(1.0L, -58)) tm = tlo + ldexpl(1.0L, -58);  // distinct on the 2^-60 grid
            if (!final_vertex && tm > 1.0L - ldexpl(1.0L, -50))  // a vertex before the last one: stay below 1 on the 2^-60 grid
                tm = tlo > 1.0L - ldexpl(1.0L, -49) ? (tlo + 1.0L) / 2 : 1.0L - ldexpl(1.0L, -50);
            ld fm = bez_dist2(c, tm, v);
            if (fm <= accept) return tm;  // first (smallest) acceptable minimum
            if (best_f < 0 || fm < best_f) {
                best_f = fm;
                best_t = tm;
            }
        }
        return -1;
    }
};
static ld find_t(const std::vector<Vec2>& c, const Vec2& v, ld tlo, double dtmax, ld scale) {
    TSearch S{c, v, tlo, (1e-11L * scale) * (1e-11L * scale), -1, std::min((ld)1.0, tlo + dtmax), false};
    ld th = std::min((ld)1.0, tlo + (ld)dtmax * (1 + 1e-9L) + 1e-15L);
    ld t = S.scan(tlo, th, 0);
    if (t >= 0) return t;
    if (th < 1.0L) {
        t = S.scan(th, 1.0L, 0);
        if (t >= 0) return t;
    }
    return S.best_t;
}

// ---------------------------------------------------------------- one polynomial section
struct Sec {
    std::vector<Vec2> ctrl;  // absolute control polygon as the C++ computes it (same double operations)
    bool line;
    Sec() : line(false) {}
    Sec(std::vector<Vec2> c, bool l) : ctrl(c), line(l) {}
};

static Vec2 cubic_cb_ctrl[4];
static Vec2 param_cubic(double u, void*) {
    const Vec2* p = cubic_cb_ctrl;
    double r = 1 - u;
    return (r * r * r) * p[0] + (3 * r * r * u) * p[1] + (3 * r * u * u) * p[2] + (u * u * u) * p[3];
}

struct Stats {
    std::map<std::string, double> maxratio;
};
static Stats g_stats;

// floating-point estimate of max distance curve piece -> its chord, relative to tol
static double piece_ratio(const std::vector<Vec2>& ctrl, ld t0, ld t1, const Vec2& a, const Vec2& b, double tol) {
    ld worst = 0;
    for (int j = 1; j < 16; j++) {
        ld t = t0 + ((ld)t1 - t0) * j / 16, x, y;
        bez_eval(ctrl, t, x, y);
        ld d = seg_dist(x, y, a, b);
        if (d > worst) worst = d;
    }
    return (double)(worst / tol);
}
static bool span_lt_quarter(const std::vector<Vec2>& c) {
    std::vector<Vec2> e;
    for (size_t i = 0; i + 1 < c.size(); i++) {
        Vec2 d = c[i + 1] - c[i];
        if (d.x != 0 || d.y != 0) e.push_back(d);
    }
    if (e.empty()) return false;
    for (size_t i = 0; i < e.size(); i++)
        for (size_t j = i + 1; j < e.size(); j++)
            if (!((ld)e[i].x * e[j].x + (ld)e[i].y * e[j].y > 0)) return false;
    return true;
}

// ---------------------------------------------------------------- arcs: data + floating-point oracle
struct ArcInfo {
    double rx, ry, cr, sr, cx, cy, a0, a1;  // a0,a1: elliptical (parametric) angles
    uint64_t nseg;
};
static std::string arc_data(const std::string& label, double tol, const ArcInfo& A, const std::vector<Vec2>& v, bool closed_uniform) {
    (void)closed_uniform;
    const size_t n = v.size() - 1;
    double step = (A.a1 - A.a0) / (double)A.nseg;
    int nq = (int)floor(fabs(step) / (M_PI / 2));
    std::string s = "arc " + label + " " + hex_dbl(tol) + " " + hex_dbl(A.rx) + " " + hex_dbl(A.ry) + " " + hex_dbl(A.cr * A.rx) + " " +
                    hex_dbl(-A.sr * A.ry) + " " + hex_dbl(A.sr * A.rx) + " " + hex_dbl(A.cr * A.ry) + " " + hex_dbl(A.cx) + " " +
                    hex_dbl(A.cy) + " " + hex_dbl(cos(step)) + " " + hex_dbl(sin(step)) + " " + (step < 0 ? "-1" : "1") + " " +
                    std::to_string(nq) + " " + std::to_string(v.size());
    for (auto& p : v) s += " " + hd2(p);
    // sample parameters inside the chords' spans: quarter turn index and half-angle tangent on the 2^-bb
    // grid, 2^-bb <= step / 1024.  At most ~g_budget samples per arc: up to 15 per chord, and for long
    // polylines the midpoint of every stride-th chord (first and last chord always).
    size_t m = g_budget / (n ? n : 1);
    if (m > 16) m = 16;
    if (m < 2) m = 2;
    if (m & 1) m++;
    size_t stride = (n + g_budget - 1) / g_budget;
    if (stride < 1) stride = 1;
    int bb = (int)ceil(log2(1024.0 / std::max(fabs(step), 1e-9)));
    if (bb < 12) bb = 12;
    if (bb > 28) bb = 28;
    s += " " + std::to_string(bb);
    for (size_t k = 0; k < n; k++) {
        if (!(k % stride == 0 || k + 1 == n)) {
            s += " 0";
            continue;
        }
        s += " " + std::to_string(m - 1);
        for (size_t j = 1; j < m; j++) {
            ld ang = A.a0 + ((ld)A.a1 - A.a0) * ((ld)k + (ld)j / (ld)m) / (ld)n;
            long long q = llroundl(ang / (M_PIl / 2));
            ld psi = ang - q * (M_PIl / 2);
            long long a = llroundl(tanl(psi / 2) * ldexpl(1.0L, bb));
            s += " " + std::to_string((int)(((q % 4) + 4) % 4)) + " " + hex_i64(a);
        }
    }
    return s;
}
// max over chords of the distance (ellipse point at the chord's mid parameter and 6 more) -> chord
static double arc_ratio(double tol, const ArcInfo& A, const std::vector<Vec2>& v) {
    ld worst = 0;
    size_t n = v.size() - 1;
    for (size_t k = 0; k < n; k++) {
        for (int j = 1; j < 8; j++) {
            ld ang = A.a0 + ((ld)A.a1 - A.a0) * (k + j / 8.0L) / (ld)n;
            ld x = A.rx * cosl(ang), y = A.ry * sinl(ang);
            ld px = A.cx + x * A.cr - y * A.sr, py = A.cy + x * A.sr + y * A.cr;
            ld d = seg_dist(px, py, v[k], v[k + 1]);
            if (d > worst) worst = d;
        }
    }
    return (double)(worst / tol);
}
static uint64_t expected_arc_points(double angle, double radius, double tol, bool& boundary) {
    ld c = 1 - (ld)tol / radius;
    ld a = c < -1 ? (ld)M_PIl : acosl(c);
    ld x = 0.5L + 0.5L * fabsl((ld)angle) / a;
    ld fl = floorl(x);
    boundary = (x - fl < 1e-9L * (1 + x)) || (fl + 1 - x < 1e-9L * (1 + x));
    return (uint64_t)fl;
}

// ---------------------------------------------------------------- running one curve
struct Emit {
    Out& out;
    std::string desc;
};

static void note_ratio(const std::string& k, double r) {
    double& m = g_stats.maxratio[k];
    if (r > m) m = r;
}

static void run_curve(Out& out, const CurveDesc& d) {
    const std::string desc = fmt_desc(d);
    Curve c = {};
    c.init(d.start, d.tol);
    const double tol = d.tol;
    bool dead = false;  // a previous call left a non-finite current point
    for (size_t ci = 0; ci < d.calls.size() && !dead; ci++) {
        const Call& call = d.calls[ci];
        if (ci > 0 && (ci + d.calls.size()) % 2 == 0) {
            // continue on a COPY of the curve (FlexPath::copy_from, repetition copies and hierarchy queries do this to every
            // spine): the copy must carry the vertices, the tolerance and the last control point, or the smooth sections and
            // turns that follow bend differently
            Curve c2 = {};
            c2.copy_from(c);
            bool same = c2.point_array.count == c.point_array.count && c2.tolerance == c.tolerance &&
                        ((c2.last_ctrl.x == c.last_ctrl.x && c2.last_ctrl.y == c.last_ctrl.y) ||
                         (c2.last_ctrl.x != c2.last_ctrl.x && c.last_ctrl.x != c.last_ctrl.x));
            for (uint64_t i = 0; same && i < c.point_array.count; i++)
                same = (c2.point_array[i].x == c.point_array[i].x || c.point_array[i].x != c.point_array[i].x) &&
                       (c2.point_array[i].y == c.point_array[i].y || c.point_array[i].y != c.point_array[i].y);
            if (!same) {
                std::string cid = out.add("copy", desc + " @" + std::to_string(ci));
                out.I(cid, "differs");
                out.P(cid, "FAIL curve:copy_from the copy of a curve differs from it in vertices, tolerance or last control point");
            }
            c.clear();
            c = c2;
        }
        const Vec2 pre = c.point_array[c.point_array.count - 1];
        const Vec2 pre_ctl = c.last_ctrl;
        const uint64_t n0 = c.point_array.count;
        const std::string& k = call.kind;
        Array<Vec2> arr = {};
        for (auto& p : call.pts) arr.append(p);
        std::vector<Sec> secs;  // expected sections (absolute control polygons, C++ arithmetic)
        Vec2 exp_ctl = pre_ctl;
        bool have_exp_ctl = true;
        std::vector<Vec2> hob;  // interpolation: ca, cb per piece
        bool is_arc = false;
        ArcInfo A = {};
        std::string fail;  // first P failure
        auto setfail = [&](const std::string& f) {
            if (fail.empty()) fail = f;
        };
        const Vec2 ref = pre;
        auto offp = [&](const Vec2& p) { return call.rel ? ref + p : p; };

        // ---- invoke, and say what the documentation promises
        if (k == "segment") {
            c.segment(call.pts[0], call.rel);
            Vec2 e = call.rel ? call.pts[0] + pre : call.pts[0];
            secs.push_back(Sec{{pre, e}, true});
            exp_ctl = pre;
        } else if (k == "segments") {
            c.segment(arr, call.rel);
            Vec2 prev = pre;
            for (auto& p : call.pts) {
                Vec2 e = offp(p);
                secs.push_back(Sec{{prev, e}, true});
                exp_ctl = prev;
                prev = e;
            }
        } else if (k == "horizontal" || k == "vertical") {
            bool h = k == "horizontal";
            if (h) c.horizontal(call.pts[0].x, call.rel); else c.vertical(call.pts[0].x, call.rel);
            Vec2 e = pre;
            if (h) e.x = call.rel ? pre.x + call.pts[0].x : call.pts[0].x;
            else e.y = call.rel ? pre.y + call.pts[0].x : call.pts[0].x;
            secs.push_back(Sec{{pre, e}, true});
            exp_ctl = pre;
        } else if (k == "horizontals" || k == "verticals") {
            bool h = k == "horizontals";
            Array<double> co = {};
            for (auto& p : call.pts) co.append(p.x);
            if (h) c.horizontal(co, call.rel); else c.vertical(co, call.rel);
            co.clear();
            Vec2 prev = pre;
            for (auto& p : call.pts) {
                Vec2 e = pre;
                if (h) e.x = call.rel ? ref.x + p.x : p.x; else e.y = call.rel ? ref.y + p.x : p.x;
                secs.push_back(Sec{{prev, e}, true});
                exp_ctl = prev;
                prev = e;
            }
        } else if (k == "cubic") {
            c.cubic(arr, call.rel);
            Vec2 prev = pre;
            for (size_t i = 0; i + 2 < call.pts.size(); i += 3) {
                Vec2 e = offp(call.pts[i + 2]);
                secs.push_back(Sec{{prev, offp(call.pts[i]), offp(call.pts[i + 1]), e}, false});
                prev = e;
            }
            exp_ctl = offp(call.pts[call.pts.size() - 2]);
        } else if (k == "cubic_smooth") {
            c.cubic_smooth(arr, call.rel);
            Vec2 prev = pre, lc = pre_ctl;
            for (size_t i = 0; i + 1 < call.pts.size(); i += 2) {
                Vec2 sm = prev * 2 - lc;
                lc = offp(call.pts[i]);
                Vec2 e = offp(call.pts[i + 1]);
                secs.push_back(Sec{{prev, sm, lc, e}, false});
                prev = e;
            }
            exp_ctl = lc;
        } else if (k == "quadratic") {
            c.quadratic(arr, call.rel);
            Vec2 prev = pre;
            for (size_t i = 0; i + 1 < call.pts.size(); i += 2) {
                Vec2 e = offp(call.pts[i + 1]);
                secs.push_back(Sec{{prev, offp(call.pts[i]), e}, false});
                prev = e;
            }
            exp_ctl = offp(call.pts[call.pts.size() - 2]);
        } else if (k == "quad_smooth1") {
            c.quadratic_smooth(call.pts[0], call.rel);
            Vec2 lc = pre * 2 - pre_ctl;
            Vec2 e = call.rel ? pre + call.pts[0] : call.pts[0];
            secs.push_back(Sec{{pre, lc, e}, false});
            exp_ctl = lc;
        } else if (k == "quad_smooth") {
            c.quadratic_smooth(arr, call.rel);
            Vec2 prev = pre, lc = pre_ctl;
            for (auto& p : call.pts) {
                lc = prev * 2 - lc;
                Vec2 e = offp(p);
                secs.push_back(Sec{{prev, lc, e}, false});
                prev = e;
            }
            exp_ctl = lc;
        } else if (k == "bezier") {
            c.bezier(arr, call.rel);
            Sec s;
            s.ctrl.push_back(pre);
            for (auto& p : call.pts) s.ctrl.push_back(offp(p));
            secs.push_back(s);
            exp_ctl = offp(call.pts[call.pts.size() - 2]);  // documented: the last control point, absolute
        } else if (k == "interp") {
            size_t np = call.pts.size();
            std::vector<double> angles(np + 1, 0.0);
            std::vector<char> cons(np + 1, 0);
            std::vector<Vec2> tens(np + 1, Vec2{call.num[0], call.num[1]});
            bool* bc = (bool*)calloc(np + 1, sizeof(bool));
            (void)cons;
            // optional angle constraints: per point (flag, angle) after the four scalars
            if (call.num.size() >= 4 + 2 * (np + 1))
                for (size_t i = 0; i <= np; i++) {
                    bc[i] = call.num[4 + 2 * i] != 0;
                    angles[i] = call.num[5 + 2 * i];
                }
            // the control points the call must use: the same public routine on the same input
            std::vector<Vec2> hv(3 * (np + 1) + 1);
            hv[0] = ref;
            for (size_t i = 0; i < np; i++) hv[3 * (i + 1)] = offp(call.pts[i]);
            hobby_interpolation(np + 1, hv.data(), angles.data(), bc, tens.data(), call.num[2], call.num[3], call.cycle);
            if (call.cycle) hv[3 * (np + 1)] = ref;
            c.interpolation(arr, angles.data(), bc, tens.data(), call.num[2], call.num[3], call.cycle, call.rel);
            free(bc);
            size_t pieces = np + (call.cycle ? 1 : 0);
            for (size_t i = 0; i < pieces; i++) {
                secs.push_back(Sec{{hv[3 * i], hv[3 * i + 1], hv[3 * i + 2], hv[3 * i + 3]}, false});
                hob.push_back(hv[3 * i + 1]);
                hob.push_back(hv[3 * i + 2]);
            }
            exp_ctl = hv[3 * pieces - 1];
        } else if (k == "param") {
            for (int i = 0; i < 4; i++) cubic_cb_ctrl[i] = call.pts[i];
            c.parametric(param_cubic, NULL, call.rel);
            Sec s;
            const Vec2 r0 = call.rel ? ref : Vec2{0, 0};
            for (int i = 0; i < 4; i++) s.ctrl.push_back(call.pts[i] + r0);
            // end points exactly as the callback returns them
            s.ctrl[0] = param_cubic(0, NULL) + r0;
            s.ctrl[3] = param_cubic(1, NULL) + r0;
            secs.push_back(s);
            exp_ctl = pre_ctl;  // parametric() does not touch last_ctrl
        } else if (k == "arc" || k == "turn") {
            is_arc = true;
            double rx, ry, a_i, a_f, rot;
            if (k == "arc") {
                rx = call.num[0]; ry = call.num[1]; a_i = call.num[2]; a_f = call.num[3]; rot = call.num[4];
                c.arc(rx, ry, a_i, a_f, rot);
            } else {
                rx = ry = call.num[0];
                rot = 0;
                const Vec2 direction = pre - pre_ctl;
                a_i = direction.angle() + (call.num[1] < 0 ? 0.5 * M_PI : -0.5 * M_PI);
                a_f = a_i + call.num[1];
                c.turn(call.num[0], call.num[1]);
            }
            A.rx = rx; A.ry = ry; A.cr = cos(rot); A.sr = sin(rot);
            A.a0 = ref_ell_angle(a_i - rot, rx, ry);
            A.a1 = ref_ell_angle(a_f - rot, rx, ry);
            double x = rx * cos(A.a0), y = ry * sin(A.a0);
            Vec2 point0 = {x * A.cr - y * A.sr, x * A.sr + y * A.cr};
            Vec2 delta = pre - point0;
            A.cx = delta.x; A.cy = delta.y;
            A.nseg = c.point_array.count - n0;
            // chord count against the formula (long double) for the PARAMETER span (what the theorem needs and,
            // since fix 4b3b094, what Curve::arc uses).  Fewer chords on an ellipse is finding F12.
            {
                bool bnd;
                uint64_t np = 1 + expected_arc_points(fabs(A.a1 - A.a0), rx > ry ? rx : ry, tol, bnd);
                if (np < GDSTK_MIN_POINTS) np = GDSTK_MIN_POINTS;
                uint64_t got = A.nseg + 1;
                if (got < np && !(bnd && got + 1 == np))
                    setfail(std::string("FAIL ") + (rx == ry ? "Curve::arc:count " : "Curve::arc:ellipse-span ") + std::to_string(got) +
                            " points, the chord formula for the parameter span gives " + std::to_string(np));
                else if (got != np && !(bnd && (got + 1 == np || got == np + 1)))
                    out.count("arc:more-chords-than-formula");
            }
            have_exp_ctl = false;
        } else {
            out.count("unknown-call");
            arr.clear();
            return;
        }
        arr.clear();

        // ---- collect the appended vertices
        std::vector<Vec2> nv;
        for (uint64_t i = n0; i < c.point_array.count; i++) nv.push_back(c.point_array[i]);
        const Vec2 post = c.point_array[c.point_array.count - 1];
        const Vec2 post_ctl = c.last_ctrl;
        bool allfinite = true;
        for (auto& p : nv) allfinite = allfinite && finite2(p);
        if (!finite2(post)) dead = true;

        std::string payload_head = desc + " # " + std::to_string(ci) + " | ";
        std::string data, Iline;

        if (is_arc) {
            std::vector<Vec2> av;
            av.push_back(pre);
            for (auto& p : nv) av.push_back(p);
            if (!allfinite) setfail("FAIL " + std::string(k == "arc" ? "Curve::arc" : "Curve::turn") + ":nonfinite vertex is not finite");
            if (allfinite && !nv.empty()) {
                // end point: the same expression the C++ evaluates at t = 1 (LERP(a0,a1,1) = a1)
                double x = A.rx * cos(A.a1), y = A.ry * sin(A.a1);
                Vec2 pe = Vec2{x * A.cr - y * A.sr, x * A.sr + y * A.cr} + Vec2{A.cx, A.cy};
                double ulp = 4 * 2.220446049250313e-16 * (fabs(pe.x) + fabs(pe.y) + A.rx + A.ry);
                if (fabs(pe.x - post.x) > ulp || fabs(pe.y - post.y) > ulp)
                    setfail("FAIL Curve::arc:end last vertex is not start + (P(final) - P(initial))");
                // last_ctrl: behind the end point along the last chord, at the mean radius
                Vec2 chord = av[av.size() - 2] - av[av.size() - 1];
                Vec2 back = post_ctl - post;
                double lc = chord.length(), lb = back.length();
                if (!finite2(post_ctl))
                    setfail("FAIL Curve::arc:last_ctrl last_ctrl is not finite (zero-length last chord)");
                else if (lc > 1e-9 * (A.rx + A.ry)) {
                    double cs = chord.cross(back) / (lc * lb), dt = chord.inner(back) / (lc * lb);
                    if (!(fabs(cs) < 1e-9 && dt > 0 && fabs(lb - 0.5 * (A.rx + A.ry)) <= 1e-9 * (A.rx + A.ry)))
                        setfail("FAIL Curve::arc:last_ctrl not behind the end point along the last chord at the mean radius");
                }
                if (k == "turn") {
                    // continuity: the first chord leaves along `direction`, turned by half a step
                    Vec2 dir = pre - pre_ctl;
                    Vec2 ch = av[1] - av[0];
                    double half = 0.5 * call.num[1] / (double)A.nseg;
                    double ang = atan2(dir.cross(ch), dir.inner(ch));
                    double diff = ang - half;
                    while (diff > M_PI) diff -= 2 * M_PI;
                    while (diff < -M_PI) diff += 2 * M_PI;
                    if (dir.length() > 0 && ch.length() > 1e-9 * A.rx && fabs(diff) > 1e-6)
                        setfail("FAIL Curve::turn:direction first chord does not continue the previous direction");
                }
                double ratio = arc_ratio(tol, A, av);
                note_ratio(std::string("arc-") + (A.rx == A.ry ? "circular" : "elliptical"), ratio);
                if (ratio > 4.0 * (1 + 1e-6)) {
                    char b[160];
                    snprintf(b, sizeof b, "%.3f tol with %llu chords", ratio, (unsigned long long)A.nseg);
                    if (A.rx != A.ry)
                        setfail(std::string("FAIL Curve::arc:ellipse-span elliptical arc deviates ") + b);
                    else
                        setfail(std::string("FAIL Curve::arc:deviation circular arc deviates ") + b);
                }
            }
            data = allfinite ? arc_data(k, tol, A, av, false) : "skip nonfinite";
            Iline = "arc " + std::to_string(av.size());
            out.count(std::string("arc:") + (A.rx == A.ry ? "circular" : "elliptical"));
            out.count(std::string("arc:span>2pi:") + (fabs(A.a1 - A.a0) > 2 * M_PI ? "yes" : "no"));
            out.count(std::string("arc:tol>=r:") + (tol >= std::max(A.rx, A.ry) ? "yes" : "no"));
        } else {
            // ---- split the vertices among the sections; parameters of the vertices
            size_t pos = 0;
            std::string secdata;
            bool nan_first = false;
            size_t nsec_done = 0;
            ld scale = 1e-300L;
            for (auto& s : secs)
                for (auto& p : s.ctrl) scale = std::max(scale, (ld)std::max(fabs(p.x), fabs(p.y)));
            for (size_t si = 0; si < secs.size(); si++) {
                Sec& s = secs[si];
                const Vec2 e = s.ctrl.back();
                std::vector<Vec2> sv;
                bool found = false, nanhere = false;
                while (pos < nv.size()) {
                    Vec2 p = nv[pos++];
                    sv.push_back(p);
                    if (!finite2(p)) {
                        nanhere = true;
                        break;
                    }
                    if (eqv(p, e)) {
                        // a vertex equal to the requested end closes the section; a degenerate section
                        // (all control points equal) repeats it: the repeats belong to the same section
                        found = true;
                        size_t remaining = secs.size() - 1 - si;
                        if (remaining == 0 && !s.line) {
                            bool rest_finite = true;
                            for (size_t q = pos; q < nv.size(); q++) rest_finite = rest_finite && finite2(nv[q]);
                            if (rest_finite && pos < nv.size() && eqv(nv.back(), e))
                                while (pos < nv.size()) sv.push_back(nv[pos++]);
                        } else if (!s.line) {
                            bool degenerate = true;
                            for (auto& cp : s.ctrl) degenerate = degenerate && eqv(cp, e);
                            if (degenerate) {
                                // the sections that follow and end at this same point (degenerate ones in a row, or a loop back to it)
                                // need a vertex equal to it each: leave them one
                                size_t need = 0;
                                for (size_t sj = si + 1; sj < secs.size() && eqv(secs[sj].ctrl.back(), e); sj++) need++;
                                auto run_len = [&]() {
                                    size_t q = pos;
                                    while (q < nv.size() && eqv(nv[q], e)) q++;
                                    return q - pos;
                                };
                                while (pos + remaining < nv.size() && eqv(nv[pos], e) && run_len() > need) sv.push_back(nv[pos++]);
                            }
                        }
                        break;
                    }
                }
                if (k == "param" && si == 0 && !sv.empty() && !nanhere) {
                    // parametric() first appends f(0)+ref when it is farther than tol from the current point
                    if (!eqv(s.ctrl[0], pre)) {
                        ld dx = (ld)s.ctrl[0].x - pre.x, dy = (ld)s.ctrl[0].y - pre.y;
                        if (dx * dx + dy * dy > (ld)tol * tol) setfail("FAIL Curve::parametric:start f(0) is not the current point");
                    }
                }
                if (nanhere) {
                    if (si == 0 && sv.size() == 1) nan_first = true;
                    std::string fn = s.ctrl.size() == 4 && k != "bezier" ? "append_cubic" : (s.ctrl.size() == 3 && k != "bezier" ? "append_quad" : "append_bezier");
                    if (s.line || k == "param")
                        setfail("FAIL " + k + ":nonfinite vertex is not finite");
                    else
                        setfail("FAIL append_cubic:nan-step " + fn + " appended a NaN vertex after " + std::to_string(sv.size() - 1) +
                                " vertices of section " + std::to_string(si) + " and stopped");
                    secdata += " 0";
                    nsec_done++;
                    continue;
                }
                if (!found) {
                    setfail("FAIL " + k + ":end section " + std::to_string(si) + " has no vertex equal to the requested end point");
                    secdata += " 0";
                    nsec_done++;
                    continue;
                }
                // parameters
                std::vector<ld> ts;
                if (s.line) {
                    ts.push_back(1.0);
                } else {
                    double dtmax = (k == "bezier") ? 1.0 / (double)s.ctrl.size() : 1.0 / GDSTK_MIN_POINTS;
                    ld tl = 0;
                    for (size_t vi = 0; vi + 1 < sv.size(); vi++) {
                        ld t = find_t(s.ctrl, sv[vi], tl, dtmax, scale);
                        ts.push_back(t);
                        tl = t;
                    }
                    ts.push_back(1.0);
                    bool cls = span_lt_quarter(s.ctrl);
                    out.count(std::string("poly-class:") + (cls ? "span<90" : "other"));
                    if (cls) {
                        double worst = 0;
                        Vec2 a = s.ctrl[0];
                        ld t0 = 0;
                        for (size_t vi = 0; vi < sv.size(); vi++) {
                            worst = std::max(worst, piece_ratio(s.ctrl, t0, ts[vi], a, sv[vi], tol));
                            a = sv[vi];
                            t0 = ts[vi];
                        }
                        std::string kk = k == "param" ? "param" : (s.ctrl.size() == 4 && k != "bezier" ? "cubic" : (s.ctrl.size() == 3 && k != "bezier" ? "quad" : "bezier"));
                        note_ratio("poly-" + kk, worst);
                    }
                }
                secdata += " " + std::to_string(sv.size());
                for (auto& p : sv) secdata += " " + hd2(p);
                for (ld t : ts) secdata += " " + grid60(t);
                nsec_done++;
            }
            if (pos < nv.size() && fail.empty()) {
                bool rest_finite = true;
                for (size_t q = pos; q < nv.size(); q++) rest_finite = rest_finite && finite2(nv[q]);
                if (!rest_finite && !secs.empty() && !secs.back().line && k != "param")
                    // the parameter reached 1 - ulp instead of 1: one more iteration, whose step is NaN
                    setfail("FAIL append_cubic:nan-step a NaN vertex is appended after the end point of the section (one more iteration at t = 1 - ulp)");
                else
                    setfail("FAIL " + k + ":extra vertices after the last requested end point");
            }
            // ---- P checks the harness can make alone
            if (!nv.empty() && finite2(post) && !secs.empty() && !eqv(post, secs.back().ctrl.back()))
                setfail("FAIL " + k + ":end last vertex differs from the requested end point");
            if (have_exp_ctl && finite2(post) && !eqv(post_ctl, exp_ctl)) {
                if (k == "bezier" && call.rel) {
                    char b[200];
                    snprintf(b, sizeof b, "last_ctrl = (%.17g, %.17g), the section's last control point is (%.17g, %.17g)", post_ctl.x,
                             post_ctl.y, exp_ctl.x, exp_ctl.y);
                    setfail(std::string("FAIL Curve::bezier:last_ctrl-relative ") + b);
                } else
                    setfail("FAIL " + k + ":last_ctrl last_ctrl is not the last control point of the section");
            }
            // ---- data for the driver
            data = "poly " + std::to_string(g_budget) + " " + hex_dbl(tol) + " " + hd2(pre) + " " + hd2(pre_ctl) + " " + k + " " + (call.rel ? "1" : "0") + " " +
                   (call.cycle ? "1" : "0") + " " + std::to_string(call.pts.size());
            for (auto& p : call.pts) data += " " + hd2(p);
            data += " " + std::to_string(hob.size() / 2);
            for (auto& p : hob) data += " " + hd2(p);
            data += " " + std::to_string(secs.size()) + secdata;
            Iline = std::string("n0=") + (nan_first ? "1" : "0") + " E=" + grid2(post) + " C=" + grid2(post_ctl);
            bool later_nan = !allfinite && !nan_first;
            if (later_nan) Iline = "nanlater";
            if (!finite2(pre_ctl)) Iline = "nonfinite-input";
            out.count("call:" + k + (call.rel ? ":rel" : ":abs"));
            // a section whose curve passes through its own end point before t = 1 (collinear control points traversed out and
            // back): the vertices cannot be attributed to sections by "first vertex equal to the end point"; such calls are
            // counted and not judged
            bool retrace = false;
            for (auto& s : secs) {
                if (s.line || s.ctrl.size() < 3) continue;
                const Vec2 e = s.ctrl.back();
                for (int i = 1; i <= 2007 && !retrace; i++) {
                    ld x, y;
                    bez_eval(s.ctrl, (ld)i / 2048, x, y);
                    ld dx = x - e.x, dy = y - e.y;
                    if (dx * dx + dy * dy < 1e-18L * scale * scale) retrace = true;
                }
            }
            if (retrace) {
                data = "skip retrace";
                Iline = "skip";
                fail.clear();
                out.count("poly:skip-retrace");
            }
        }
        std::string id = out.add(k, payload_head + data);
        out.I(id, Iline);
        out.P(id, fail.empty() ? "ok" : fail);
        if (!fail.empty()) out.count("pfail:" + fail.substr(5, fail.find(' ', 5) - 5));
    }

    // ---- the same curve through Curve::commands
    if (d.via_commands && !dead) {
        std::vector<CurveInstruction> ins;
        auto cmd = [&](char ch) {
            CurveInstruction i;
            i.number = 0;
            i.command = ch;
            ins.push_back(i);
        };
        auto num = [&](double v) {
            CurveInstruction i;
            i.number = v;
            ins.push_back(i);
        };
        bool ok = true;
        for (auto& call : d.calls) {
            const std::string& k = call.kind;
            bool r = call.rel;
            if (k == "segment") { cmd(r ? 'l' : 'L'); num(call.pts[0].x); num(call.pts[0].y); }
            else if (k == "horizontal") { cmd(r ? 'h' : 'H'); num(call.pts[0].x); }
            else if (k == "vertical") { cmd(r ? 'v' : 'V'); num(call.pts[0].x); }
            else if (k == "cubic" && call.pts.size() == 3) { cmd(r ? 'c' : 'C'); for (auto& p : call.pts) { num(p.x); num(p.y); } }
            else if (k == "cubic_smooth" && call.pts.size() == 2) { cmd(r ? 's' : 'S'); for (auto& p : call.pts) { num(p.x); num(p.y); } }
            else if (k == "quadratic" && call.pts.size() == 2) { cmd(r ? 'q' : 'Q'); for (auto& p : call.pts) { num(p.x); num(p.y); } }
            else if (k == "quad_smooth" && call.pts.size() == 1) { cmd(r ? 't' : 'T'); num(call.pts[0].x); num(call.pts[0].y); }
            else if (k == "turn") { cmd('a'); num(call.num[0]); num(call.num[1]); }
            else if (k == "arc" && call.num[0] == call.num[1] && call.num[4] == 0) { cmd('A'); num(call.num[0]); num(call.num[2]); num(call.num[3]); }
            else if (k == "arc") { cmd('E'); for (double v : call.num) num(v); }
            else ok = false;
        }
        if (ok) {
            Curve c2 = {};
            c2.init(d.start, d.tol);
            uint64_t ret = c2.commands(ins.data(), ins.size());
            std::string fail;
            if (ret != ins.size()) fail = "FAIL Curve::commands:return processed " + std::to_string(ret) + " of " + std::to_string(ins.size());
            else if (c2.point_array.count != c.point_array.count) fail = "FAIL Curve::commands:mismatch vertex count differs from the direct calls";
            else {
                for (uint64_t i = 0; i < c.point_array.count && fail.empty(); i++)
                    if (memcmp(&c.point_array[i], &c2.point_array[i], sizeof(Vec2)) != 0)
                        fail = "FAIL Curve::commands:mismatch vertex " + std::to_string(i) + " differs from the direct calls";
                if (fail.empty() && memcmp(&c.last_ctrl, &c2.last_ctrl, sizeof(Vec2)) != 0)
                    fail = "FAIL Curve::commands:mismatch last_ctrl differs from the direct calls";
            }
            std::string s = "cmd";
            for (auto& call : d.calls) s += " " + call.kind + (call.rel ? ":r" : ":a");
            std::string id = out.add("commands", desc + " # cmd | " + s);
            out.I(id, "cmd " + std::to_string(d.calls.size()));
            out.P(id, fail.empty() ? "ok" : fail);
            c2.clear();
        }
    }
    c.clear();
}

// ---------------------------------------------------------------- shapes
// payload: <kind-specific numbers as hex doubles> ; the data part after '|' as for curves
// devkey: finding key of a deviation above K tol (default "<kind>:deviation"; the fillets pass "fillet:sagitta" so that a
// polyline of two or more vertices that strays is never attributed to the recorded one-point finding fillet:deviation)
static void emit_arcloop(Out& out, const std::string& kind, const std::string& head, double tol, const ArcInfo& A,
                         const std::vector<Vec2>& v, const std::string& fail_in, double K, const std::string& devkey = "") {
    std::string fail = fail_in;
    bool fin = true;
    for (auto& p : v) fin = fin && finite2(p);
    if (!fin && fail.empty()) fail = "FAIL " + kind + ":nonfinite vertex is not finite";
    if (fin && fail.empty()) {
        double ratio = arc_ratio(tol, A, v);
        note_ratio(kind + (A.rx == A.ry ? "-circular" : "-elliptical"), ratio);
        if (ratio > K * (1 + 1e-6)) {
            char b[160];
            snprintf(b, sizeof b, "%.3f tol with %llu chords", ratio, (unsigned long long)A.nseg);
            fail = "FAIL " + (devkey.empty() ? kind + (A.rx != A.ry ? ":ellipse-span" : ":deviation") : devkey) + " deviates " + b;
        }
    }
    std::string id = out.add(kind, head + " | " + (fin ? arc_data(kind, tol, A, v, true) : std::string("skip nonfinite")));
    out.I(id, "arc " + std::to_string(v.size()));
    out.P(id, fail.empty() ? "ok" : fail);
    if (!fail.empty()) out.count("pfail:" + fail.substr(5, fail.find(' ', 5) - 5));
}

// ---------------------------------------------------------------- Polygon::fillet: oracle from the arguments alone
// A fillet case is (vertices, radii cycled over the vertices like the library's argument, tolerance).  Rule derived from
// src/polygon.cpp (Polygon::fillet) and checked against include/gdstk/polygon.hpp / the Python docstring:
//   corner i with unit edge directions u0 (incoming, length l0), u1 (outgoing, length l1), turning angle theta in (0, pi):
//     tangent length  L     = min(R_i tan(theta/2), (min(l0, l1) - tol) / 2)
//     radius          r_eff = L / tan(theta/2)          (= R_i when nothing clamps; <= 0: the corner is kept)
//     tangent points  T0 = P - L u0, T1 = P + L u1;  centre C = P + (r_eff / cos(theta/2)) * (u1 - u0)/|u1 - u0|
//     the arc runs from T0 to T1 the short way (sweep theta, in the direction of the turn), n >= 2 uniformly spaced
//     vertices, or the corner itself (n = 1) when arc_num_points rounds to one point.
//   The documentation states the limit as "radius <= half the shortest adjacent edge"; the code limits the TANGENT LENGTH
//   (which is what keeps neighbouring fillets apart) and additionally keeps a straight piece of at least tol on every edge:
//   the two agree only at right angles (counted as fillet:doc-rule-differs in the stats, not a failure).
// Checked on the implementation's result, one case "# corners" and one "# global" per polygon (keys of the P line):
//   fillet:count          the vertices do not split into one run per corner
//   fillet:overlap        along an edge the run of its first corner ends after the run of its second corner starts, or a
//                         run leaves the edge (result-only test: uses the edge lines, no expected radius)
//   fillet:radius         a vertex of a corner's run is not on the circle of radius r_eff about C
//   fillet:tangent-point  the run does not start at T0 / end at T1 / progress monotonically between the tangent directions
//   fillet:corner         a corner with radius 0 / a straight corner / a corner whose edges leave no room is not kept
//   fillet:sagitta        a chord of a run of >= 2 vertices strays more than 7 tol from the arc
//   fillet:deviation      (recorded finding) a corner kept as a single vertex lies more than 7 tol from its arc
//   fillet:outside        convex input: a result vertex lies outside the original polygon
//   fillet:self-intersection  convex input (or fillet triangles clear of the rest of the polygon): the result crosses itself
//   fillet:area           |area| differs from |original| -/+ sum over convex/reflex corners of the cut-off
//                         r_eff^2 tan(theta/2) - (m-1) r_eff^2/2 sin(theta/(m-1))   (m = vertices of the run; -> r^2 (tan(theta/2) - theta/2))
//   fillet:repeated-vertex-crash  the call crashes (polygons whose LAST vertex is repeated: the duplicate-skipping loop
//                         `while (old_pts[k] == old_pts[j]) k += 1` runs off the end of the array)
struct FilletCase {
    double tol = 0.01;
    std::vector<Vec2> in;
    std::vector<double> radii;
};
static std::string fmt_fillet(const FilletCase& f) {
    std::string s = "P " + hex_dbl(f.tol) + " " + hex_dbl((double)f.in.size());
    for (auto& p : f.in) s += " " + hex_dbl(p.x) + " " + hex_dbl(p.y);
    s += " " + hex_dbl((double)f.radii.size());
    for (double r : f.radii) s += " " + hex_dbl(r);
    return s;
}
static bool parse_fillet(const std::vector<std::string>& w, FilletCase& f) {  // w[0] == "P"
    if (w.size() < 4) return false;
    f.tol = parse_dbl(w[1]);
    size_t n = (size_t)parse_dbl(w[2]);
    if (n > 4096 || w.size() < 3 + 2 * n + 1) return false;
    for (size_t i = 0; i < n; i++) f.in.push_back(Vec2{parse_dbl(w[3 + 2 * i]), parse_dbl(w[4 + 2 * i])});
    size_t m = (size_t)parse_dbl(w[3 + 2 * n]);
    if (m > 4096 || w.size() < 4 + 2 * n + m) return false;
    for (size_t i = 0; i < m; i++) f.radii.push_back(parse_dbl(w[4 + 2 * n + i]));
    return true;
}
struct FCorner {
    ld th = 0, tant = 0, cost = 1, R = 0, r = 0, L = 0, l0 = 0, l1 = 0;
    ld u0x = 0, u0y = 0, u1x = 0, u1y = 0, cx = 0, cy = 0, t0x = 0, t0y = 0, t1x = 0, t1y = 0, eps = 0;
    int sgn = 1, clamp = 0;  // clamp: 0 none, 1 incoming edge shorter, 2 outgoing shorter, 3 equal
    bool straight = false, ill = false;
};
static const double FILLET_K = 7.0;
static unsigned long g_fillet_arc_every = 1;
static void fillet_expect(const FilletCase& f, std::vector<FCorner>& C, ld& S) {
    const size_t n = f.in.size();
    C.assign(n, FCorner());
    S = 0;
    for (auto& p : f.in) S = std::max(S, std::max(fabsl((ld)p.x), fabsl((ld)p.y)));
    for (size_t i = 0; i < n; i++) {
        const Vec2 &p0 = f.in[(i + n - 1) % n], &p1 = f.in[i], &p2 = f.in[(i + 1) % n];
        FCorner& c = C[i];
        ld d0x = (ld)p1.x - p0.x, d0y = (ld)p1.y - p0.y, d1x = (ld)p2.x - p1.x, d1y = (ld)p2.y - p1.y;
        c.l0 = hypotl(d0x, d0y);
        c.l1 = hypotl(d1x, d1y);
        S = std::max(S, std::max(c.l0, c.l1));
        c.u0x = d0x / c.l0; c.u0y = d0y / c.l0; c.u1x = d1x / c.l1; c.u1y = d1y / c.l1;
        ld cr = c.u0x * c.u1y - c.u0y * c.u1x, dt = c.u0x * c.u1x + c.u0y * c.u1y;
        c.th = atan2l(fabsl(cr), dt);
        c.sgn = cr >= 0 ? 1 : -1;
        c.straight = c.th < 1e-7L;
        c.ill = !c.straight && (c.th < 0.02L || c.th > M_PIl - 0.02L);
        c.R = f.radii[i % f.radii.size()];
        c.t0x = c.t1x = c.cx = p1.x;
        c.t0y = c.t1y = c.cy = p1.y;
        if (c.straight) continue;
        c.tant = tanl(c.th / 2);
        c.cost = cosl(c.th / 2);
        c.L = c.R * c.tant;
        c.r = c.R;
        ld lim = 0.5L * (std::min(c.l0, c.l1) - (ld)f.tol);
        if (c.L > lim) {
            c.L = lim;
            c.r = lim / c.tant;
            c.clamp = c.l0 < c.l1 ? 1 : (c.l1 < c.l0 ? 2 : 3);
        }
        if (!(c.r > 0)) { c.r = 0; c.L = 0; }
        ld bx = c.u1x - c.u0x, by = c.u1y - c.u0y, bl = hypotl(bx, by);
        c.cx = p1.x + bx / bl * c.r / c.cost;
        c.cy = p1.y + by / bl * c.r / c.cost;
        c.t0x = p1.x - c.u0x * c.L; c.t0y = p1.y - c.u0y * c.L;
        c.t1x = p1.x + c.u1x * c.L; c.t1y = p1.y + c.u1y * c.L;
    }
    // rounding guard: 1e-9 of the coordinate scale and of the distance corner - centre (the requested radius stays out of
    // it: a vertex next to a tangent point is about 4 tol off the edge, which must remain far above the guard)
    for (auto& c : C) c.eps = 1e-9L * (S + c.r / c.cost);
}
static ld orient_ld(const Vec2& a, const Vec2& b, const Vec2& c) {
    return ((ld)b.x - a.x) * ((ld)c.y - a.y) - ((ld)b.y - a.y) * ((ld)c.x - a.x);
}
static bool proper_cross(const Vec2& a, const Vec2& b, const Vec2& c, const Vec2& d, ld g) {
    ld o1 = orient_ld(a, b, c), o2 = orient_ld(a, b, d), o3 = orient_ld(c, d, a), o4 = orient_ld(c, d, b);
    return ((o1 > g && o2 < -g) || (o1 < -g && o2 > g)) && ((o3 > g && o4 < -g) || (o3 < -g && o4 > g));
}
static ld shoelace(const std::vector<Vec2>& p) {
    ld a = 0;
    for (size_t i = 1; i + 1 < p.size(); i++) a += orient_ld(p[0], p[i], p[i + 1]);
    return a / 2;
}
static std::string fnum(ld x) {
    char b[48];
    snprintf(b, sizeof b, "%.9Lg", x);
    return b;
}

// head: the text a replay re-parses (new format "P ..." or the old single-corner format)
static void run_fillet_poly(Out& out, const FilletCase& f, const std::string& head, bool always_arc = false) {
    const size_t n = f.in.size();
    if (n < 3 || f.radii.empty() || !(f.tol > 0)) return;
    bool dup = false, fin = std::isfinite(f.tol);
    for (size_t i = 0; i < n; i++) {
        dup = dup || eqv(f.in[i], f.in[(i + 1) % n]);
        fin = fin && finite2(f.in[i]);
    }
    for (double r : f.radii) fin = fin && std::isfinite(r);
    if (!fin) return;
    if (dup) {
        // repeated vertices: the library skips them; only "the call returns" is checked (in a child)
        std::string r = in_child([&](FILE* o) {
            Polygon p = {};
            for (auto& q : f.in) p.point_array.append(q);
            Array<double> radii = {};
            for (double x : f.radii) radii.append(x);
            p.fillet(radii, f.tol);
            fprintf(o, "returned %llu", (unsigned long long)p.point_array.count);
        }, 10);
        bool crashed = r.compare(0, 5, "CRASH") == 0 || r == "HANG";
        std::string id = out.add("fillet", head + " # repeated | skip repeated-vertices");
        out.I(id, crashed ? "arc crash" : "arc " + r.substr(r.find(' ') == std::string::npos ? 0 : r.find(' ') + 1));
        out.P(id, crashed ? "FAIL fillet:repeated-vertex-crash Polygon::fillet on a polygon with a repeated vertex: " + r : "ok");
        out.count(crashed ? "fillet:repeated-crash" : "fillet:repeated-returned");
        return;
    }
    std::vector<FCorner> C;
    ld S;
    fillet_expect(f, C, S);

    Polygon p = {};
    for (auto& q : f.in) p.point_array.append(q);
    Array<double> radii = {};
    for (double x : f.radii) radii.append(x);
    p.fillet(radii, f.tol);
    radii.clear();
    std::vector<Vec2> v;
    for (uint64_t i = 0; i < p.point_array.count; i++) v.push_back(p.point_array[i]);
    p.clear();
    const size_t N = v.size();
    const ld tol = f.tol;

    // ---- classes of the input (stats)
    ld area0 = shoelace(f.in);
    const int spoly = area0 >= 0 ? 1 : -1;
    bool convex = true, anyill = false;
    ld turning = 0;
    for (auto& c : C) {
        if (!c.straight && c.sgn != spoly) convex = false;
        anyill = anyill || c.ill;
        turning += c.sgn * c.th;
    }
    if (fabsl(fabsl(turning) - 2 * M_PIl) > 1e-6L) convex = false;
    out.count(convex ? "fillet-in:convex" : "fillet-in:nonconvex");
    out.count(spoly > 0 ? "fillet-in:ccw" : "fillet-in:cw");
    out.count(f.radii.size() == 1 ? "fillet-radii:uniform" : (f.radii.size() == n ? "fillet-radii:per-vertex" : "fillet-radii:cycled"));
    {
        char b[40];
        snprintf(b, sizeof b, "fillet-tol/size:1e%d", (int)floor(log10((double)(tol / S)) + 0.5));
        out.count(b);
    }
    for (auto& c : C) {
        if (c.straight) { out.count("fillet-corner:straight"); continue; }
        if (c.R == 0) { out.count("fillet-corner:radius-0"); continue; }
        out.count(c.sgn == spoly ? "fillet-corner:convex" : "fillet-corner:reflex");
        const char* cl[] = {"fillet-clamp:none", "fillet-clamp:incoming-shorter", "fillet-clamp:outgoing-shorter", "fillet-clamp:edges-equal"};
        out.count(c.r > 0 ? cl[c.clamp] : "fillet-clamp:no-room");
        ld hs = 0.5L * std::min(c.l0, c.l1), hl = 0.5L * std::max(c.l0, c.l1);
        out.count(c.R > hl ? "fillet-R:above-half-longer" : (c.R > hs ? "fillet-R:above-half-shorter" : (c.R == hs ? "fillet-R:at-half-shorter" : "fillet-R:below-half-shorter")));
        // the documented limit (radius <= half the shortest adjacent edge) against the code's (tangent length)
        ld doc = std::min(c.R, hs);
        if (c.r > 0 && fabsl(doc - c.r) > 0.01L * c.r + tol) out.count("fillet:doc-rule-differs");
    }
    if (anyill) out.count("fillet-in:ill-conditioned-corner");

    // ---- lenient split of the result into one run per corner: a run starts on the line of the incoming edge and ends
    // on the line of the outgoing edge (a kept corner is on both); no expected radius is used here
    struct Run { size_t b, e; };
    std::vector<Run> runs(n);
    std::string segfail;
    {
        size_t t = 0;
        for (size_t i = 0; i < n && segfail.empty(); i++) {
            const FCorner& c = C[i];
            const Vec2& p1 = f.in[i];
            auto din = [&](const Vec2& q) { return fabsl(((ld)q.x - p1.x) * c.u0y - ((ld)q.y - p1.y) * c.u0x); };
            auto dout = [&](const Vec2& q) { return fabsl(((ld)q.x - p1.x) * c.u1y - ((ld)q.y - p1.y) * c.u1x); };
            if (t >= N) { segfail = "FAIL fillet:count no vertex left for corner " + std::to_string(i); break; }
            if (din(v[t]) > c.eps) {
                segfail = "FAIL fillet:tangent-point first vertex of corner " + std::to_string(i) + " is " + fnum(din(v[t])) + " off the line of the incoming edge";
                break;
            }
            size_t k = t;
            while (k < N && dout(v[k]) > c.eps) k++;
            if (k == N) { segfail = "FAIL fillet:tangent-point the run of corner " + std::to_string(i) + " never reaches the outgoing edge"; break; }
            runs[i] = Run{t, k};
            t = k + 1;
        }
        if (segfail.empty() && t != N) segfail = "FAIL fillet:count " + std::to_string(N - t) + " vertices left after the last corner";
    }
    bool allfinite = true;
    for (auto& q : v) allfinite = allfinite && finite2(q);
    if (!allfinite) segfail = "FAIL fillet:nonfinite a result vertex is not finite";

    // ---- per corner
    std::string f_overlap, f_radius, f_tangent, f_corner, f_sagitta, f_dev;
    auto set = [](std::string& s, const std::string& t) { if (s.empty()) s = t; };
    if (segfail.empty()) {
        for (size_t i = 0; i < n; i++) {  // edge i: from in[i] to in[i+1]
            const FCorner& c = C[i];
            const Vec2 &a = v[runs[i].e], &b = v[runs[(i + 1) % n].b], &o = f.in[i];
            ld pa = ((ld)a.x - o.x) * c.u1x + ((ld)a.y - o.y) * c.u1y, pb = ((ld)b.x - o.x) * c.u1x + ((ld)b.y - o.y) * c.u1y;
            ld g = std::max(c.eps, C[(i + 1) % n].eps);
            if (pa < -g || pb > c.l1 + g || pa > pb + g)
                set(f_overlap, "FAIL fillet:overlap edge " + std::to_string(i) + " of length " + fnum(c.l1) + ": the fillet of its first corner ends at " +
                                   fnum(pa) + ", the fillet of its second corner starts at " + fnum(pb));
        }
        for (size_t i = 0; i < n; i++) {
            const FCorner& c = C[i];
            const size_t b = runs[i].b, m = runs[i].e - runs[i].b + 1;
            const std::string ci = "corner " + std::to_string(i);
            if (c.ill) { out.count("fillet-run:skipped-ill-conditioned"); continue; }
            if (c.r == 0) {  // radius 0, straight corner, or no room between the edges: the vertex is kept
                if (m != 1 || !eqv(v[b], f.in[i])) {
                    if (c.straight || c.R == 0) set(f_corner, "FAIL fillet:corner " + ci + " (radius 0 or straight) is not kept as it is");
                    else set(f_radius, "FAIL fillet:radius " + ci + ": the adjacent edges leave no room (effective radius 0) but " + std::to_string(m) + " vertices were produced");
                }
                out.count("fillet-run:kept-as-required");
                continue;
            }
            if (m == 1 && eqv(v[b], f.in[i])) {  // one-point arc: the corner itself
                ld dev = c.r * (1 / c.cost - 1);
                note_ratio("fillet-corner-kept", (double)(dev / tol));
                if (dev > FILLET_K * tol)
                    set(f_dev, "FAIL fillet:deviation kept " + ci + " is " + fnum(dev / tol) + " tol from the fillet arc (limit 7)");
                out.count("fillet-run:one-point");
                continue;
            }
            out.count("fillet-run:arc");
            ld w0x = c.t0x - c.cx, w0y = c.t0y - c.cy, prev = 0;
            for (size_t k = 0; k < m; k++) {
                const Vec2& q = v[b + k];
                ld wx = (ld)q.x - c.cx, wy = (ld)q.y - c.cy, d = hypotl(wx, wy);
                if (fabsl(d - c.r) > c.eps)
                    set(f_radius, "FAIL fillet:radius vertex " + std::to_string(k) + " of " + ci + " is at " + fnum(d) + " from the arc centre, effective radius " +
                                      fnum(c.r) + " (requested " + fnum(c.R) + ", edges " + fnum(c.l0) + " / " + fnum(c.l1) + ")");
                ld phi = c.sgn * atan2l(w0x * wy - w0y * wx, w0x * wx + w0y * wy), ea = c.eps / c.r + 1e-12L;
                if (phi < -ea || phi > c.th + ea || (k > 0 && !(phi > prev)))
                    set(f_tangent, "FAIL fillet:tangent-point vertex " + std::to_string(k) + " of " + ci + " is at arc parameter " + fnum(phi) + " (previous " + fnum(prev) +
                                       "), outside the turn 0.." + fnum(c.th) + " or out of order");
                if (k > 0) {
                    ld sag = c.r * (1 - cosl((phi - prev) / 2));
                    note_ratio("fillet-sagitta", (double)(sag / tol));
                    if (sag > FILLET_K * tol * (1 + 1e-6L))
                        set(f_sagitta, "FAIL fillet:sagitta chord " + std::to_string(k - 1) + " of " + ci + " has sagitta " + fnum(sag / tol) + " tol (limit 7)");
                }
                prev = phi;
            }
            const Vec2 &qa = v[b], &qb = v[b + m - 1];
            ld da = hypotl((ld)qa.x - c.t0x, (ld)qa.y - c.t0y), db = hypotl((ld)qb.x - c.t1x, (ld)qb.y - c.t1y);
            if (da > c.eps || db > c.eps)
                set(f_tangent, "FAIL fillet:tangent-point the run of " + ci + " starts " + fnum(da) + " from the tangent point on the incoming edge and ends " + fnum(db) +
                                   " from the one on the outgoing edge (tangent length " + fnum(c.L) + ")");
        }
    }
    std::string fc = segfail;
    for (const std::string* s : {&f_overlap, &f_radius, &f_tangent, &f_corner, &f_sagitta, &f_dev})
        if (fc.empty()) fc = *s;
    {
        std::string data = "skip fillet-corners " + std::to_string(N);
        for (auto& q : v) data += " " + hd2(q);
        std::string id = out.add("fillet", head + " # corners | " + data);
        out.I(id, "arc " + std::to_string(N));
        out.P(id, fc.empty() ? "ok" : fc);
        if (!fc.empty()) out.count("pfail:" + fc.substr(5, fc.find(' ', 5) - 5));
    }

    // ---- global
    std::string fg;
    if (allfinite) {
        if (convex) {
            for (size_t k = 0; k < N && fg.empty(); k++)
                for (size_t e = 0; e < n && fg.empty(); e++) {
                    ld o = spoly * orient_ld(f.in[e], f.in[(e + 1) % n], v[k]);
                    if (o < -1e-9L * C[e].l1 * S)
                        fg = "FAIL fillet:outside result vertex " + std::to_string(k) + " lies " + fnum(-o / C[e].l1) + " outside edge " + std::to_string(e) + " of the convex input";
                }
            out.count("fillet-global:inside-checked");
        }
        // simple result expected when every fillet triangle (T0, P, T1) is clear of the rest of the polygon
        bool clear = true;
        if (!convex)
            for (size_t i = 0; i < n && clear; i++) {
                const FCorner& c = C[i];
                if (c.r == 0) continue;
                Vec2 A = Vec2{(double)c.t0x, (double)c.t0y}, B = f.in[i], D = Vec2{(double)c.t1x, (double)c.t1y};
                ld g = 1e-9L * S * S, so = orient_ld(A, B, D);
                for (size_t k = 0; k < n && clear; k++) {
                    if (k != i) {
                        ld o1 = orient_ld(A, B, f.in[k]), o2 = orient_ld(B, D, f.in[k]), o3 = orient_ld(D, A, f.in[k]);
                        if (so < 0) { o1 = -o1; o2 = -o2; o3 = -o3; }
                        if (o1 > -g && o2 > -g && o3 > -g) clear = false;
                    }
                    size_t k2 = (k + 1) % n;
                    if (k == i || k2 == i) continue;
                    ld o1 = orient_ld(A, D, f.in[k]), o2 = orient_ld(A, D, f.in[k2]), o3 = orient_ld(f.in[k], f.in[k2], A), o4 = orient_ld(f.in[k], f.in[k2], D);
                    if (!((o1 > g && o2 > g) || (o1 < -g && o2 < -g) || (o3 > g && o4 > g) || (o3 < -g && o4 < -g))) clear = false;
                }
            }
        if (clear && fg.empty()) {
            ld g = 1e-9L * S * S;
            for (size_t a = 0; a < N && fg.empty(); a++)
                for (size_t b = a + 2; b < N && fg.empty(); b++) {
                    if (a == 0 && b == N - 1) continue;
                    if (proper_cross(v[a], v[(a + 1) % N], v[b], v[(b + 1) % N], g))
                        fg = "FAIL fillet:self-intersection result edges " + std::to_string(a) + " and " + std::to_string(b) + " cross";
                }
            out.count("fillet-global:simple-checked");
        }
        if (fg.empty() && segfail.empty() && !anyill) {
            ld expect = fabsl(area0), slack = 1e-9L * S * S * (ld)n;
            for (size_t i = 0; i < n; i++) {
                const FCorner& c = C[i];
                size_t m = runs[i].e - runs[i].b + 1;
                if (c.r == 0 || m < 2) continue;
                ld cut = c.r * c.r * c.tant - (ld)(m - 1) * c.r * c.r / 2 * sinl(c.th / (ld)(m - 1));
                expect += (c.sgn == spoly ? -1 : 1) * cut;
                slack += 1e-9L * c.r * c.r * (1 + c.tant);
            }
            ld got = fabsl(shoelace(v));
            if (fabsl(got - expect) > slack)
                fg = "FAIL fillet:area result area " + fnum(got) + ", original " + fnum(fabsl(area0)) + " less the corner cut-offs gives " + fnum(expect);
            out.count("fillet-global:area-checked");
        }
    }
    {
        std::string id = out.add("fillet", head + " # global | skip fillet-global " + std::to_string(N));
        out.I(id, "arc " + std::to_string(N));
        out.P(id, fg.empty() ? "ok" : fg);
        if (!fg.empty()) out.count("pfail:" + fg.substr(5, fg.find(' ', 5) - 5));
    }

    // ---- exact check by the driver (vertices on the expected circle, uniform steps, deviation): the run with the most
    // vertices and the first run of a clamped corner
    if (segfail.empty()) {
        size_t best = n, firstclamp = n;
        for (size_t i = 0; i < n; i++) {
            size_t m = runs[i].e - runs[i].b + 1;
            if (C[i].ill || C[i].r == 0 || m < 2) continue;
            if (best == n || m > runs[best].e - runs[best].b + 1) best = i;
            if (firstclamp == n && C[i].clamp != 0) firstclamp = i;
        }
        std::vector<size_t> pick;
        static unsigned long turn = 0;  // one run per polygon (quick), per fourth polygon (thorough): the driver's exact test is slow
        if (turn++ % g_fillet_arc_every == 0 || always_arc) {
            if (firstclamp != n && (turn & 2)) pick.push_back(firstclamp);
            else if (best != n) pick.push_back(best);
        }
        for (size_t i : pick) {
            const FCorner& c = C[i];
            std::vector<Vec2> cv(v.begin() + runs[i].b, v.begin() + runs[i].e + 1);
            ArcInfo A = {};
            A.rx = A.ry = (double)c.r; A.cr = 1; A.sr = 0; A.cx = (double)c.cx; A.cy = (double)c.cy;
            ld a0 = atan2l(c.t0y - c.cy, c.t0x - c.cx);
            A.a0 = (double)a0; A.a1 = (double)(a0 + c.sgn * c.th); A.nseg = cv.size() - 1;
            emit_arcloop(out, "fillet", head + " # corner " + std::to_string(i), f.tol, A, cv, "", FILLET_K, "fillet:sagitta");
        }
    }
}

static void run_shape(Out& out, const std::string& kind, const std::string& payload) {
    std::string t = payload;
    size_t bar = t.find('|');
    if (bar != std::string::npos) t = t.substr(0, bar);
    std::vector<std::string> w = split_ws(t);
    std::vector<double> a;
    for (auto& s : w) a.push_back(parse_dbl(s));
    std::string head;
    for (size_t i = 0; i < w.size(); i++) head += (i ? " " : "") + w[i];
    if (kind == "rectangle" && a.size() >= 4) {
        Polygon p = rectangle(Vec2{a[0], a[1]}, Vec2{a[2], a[3]}, 0);
        std::string I = "v";
        for (uint64_t i = 0; i < p.point_array.count; i++) I += " " + grid2(p.point_array[i]);
        std::string d = "rect " + w[0] + " " + w[1] + " " + w[2] + " " + w[3];
        std::string id = out.add(kind, head + " | " + d);
        out.I(id, I);
        p.clear();
    } else if (kind == "cross" && a.size() >= 4) {
        Polygon p = cross(Vec2{a[0], a[1]}, a[2], a[3], 0);
        std::string I = "v";
        for (uint64_t i = 0; i < p.point_array.count; i++) I += " " + grid2(p.point_array[i]);
        std::string d = "cross " + w[0] + " " + w[1] + " " + w[2] + " " + w[3];
        std::string id = out.add(kind, head + " | " + d);
        out.I(id, I);
        p.clear();
    } else if (kind == "regular_polygon" && a.size() >= 5) {
        uint64_t sides = (uint64_t)a[3];
        Polygon p = regular_polygon(Vec2{a[0], a[1]}, a[2], sides, a[4], 0);
        std::string fail;
        if (p.point_array.count != sides) fail = "FAIL regular_polygon:count wrong number of vertices";
        ld R = (ld)a[2] / (2 * sinl(M_PIl / sides));
        for (uint64_t i = 0; i < p.point_array.count && fail.empty(); i++) {
            ld ang = (ld)a[4] + M_PIl / sides - 0.5L * M_PIl + i * 2 * M_PIl / sides;
            ld ex = a[0] + R * cosl(ang), ey = a[1] + R * sinl(ang);
            ld tolv = 1e-12L * (fabsl(R) * (1 + fabsl((ld)a[4])) + fabsl((ld)a[0]) + fabsl((ld)a[1]));
            if (fabsl(ex - p.point_array[i].x) > tolv || fabsl(ey - p.point_array[i].y) > tolv)
                fail = "FAIL regular_polygon:vertex vertex " + std::to_string(i) + " is off the exact position by more than 1e-12";
        }
        std::string id = out.add(kind, head + " | regpoly " + std::to_string(sides));
        out.I(id, "regpoly " + std::to_string(p.point_array.count));
        out.P(id, fail.empty() ? "ok" : fail);
        p.clear();
    } else if (kind == "ellipse" && a.size() >= 9) {
        // cx cy rx ry irx iry a0 a1 tol
        double cx = a[0], cy = a[1], rx = a[2], ry = a[3], irx = a[4], iry = a[5], ai = a[6], af = a[7], tol = a[8];
        Polygon p = ellipse(Vec2{cx, cy}, rx, ry, irx, iry, ai, af, tol, 0);
        const double full_angle = (af == ai) ? 2 * M_PI : fabs(af - ai);
        bool full = full_angle == 2 * M_PI;
        bool ring = irx > 0 && iry > 0;
        std::vector<Vec2> v;
        for (uint64_t i = 0; i < p.point_array.count; i++) v.push_back(p.point_array[i]);
        // loop: consecutive vertices of one ellipse (lrx, lry); `closed`: the polygon closes it
        auto loop = [&](double lrx, double lry, std::vector<Vec2> lv, bool closed, const char* which) {
            ArcInfo A = {};
            A.rx = lrx; A.ry = lry; A.cr = 1; A.sr = 0; A.cx = cx; A.cy = cy;
            std::string fail;
            uint64_t got = lv.size();
            if (closed) {  // i * 2pi / num_points, i < num_points
                A.a0 = 0; A.a1 = 2 * M_PI; A.nseg = lv.size();
                lv.push_back(lv[0]);
            } else if (full) {  // i * 2pi / (num_points - 1), both ends present
                A.a0 = 0; A.a1 = 2 * M_PI; A.nseg = lv.size() - 1;
            } else {
                A.a0 = ref_ell_angle(ai, lrx, lry);
                A.a1 = ref_ell_angle(af, lrx, lry);
                A.nseg = lv.size() - 1;
            }
            bool bnd;
            uint64_t np = 1 + expected_arc_points(full_angle, lrx > lry ? lrx : lry, tol, bnd);
            if (np < GDSTK_MIN_POINTS) np = GDSTK_MIN_POINTS;
            if ((lrx == lry || full) && got < np && !(bnd && got + 1 == np))
                fail = "FAIL ellipse:count " + std::to_string(got) + " points, formula gives " + std::to_string(np);
            emit_arcloop(out, "ellipse", head + " # " + which, tol, A, lv, fail, 4.0);
        };
        auto on_ell = [&](const Vec2& q, double lrx, double lry) {
            ld x = ((ld)q.x - cx) / lrx, y = ((ld)q.y - cy) / lry;
            return fabsl(x * x + y * y - 1) < 1e-9L;
        };
        if (ring) {
            size_t n1 = 0;
            while (n1 < v.size() && on_ell(v[n1], rx, ry)) n1++;
            std::vector<Vec2> o(v.begin(), v.begin() + n1), in(v.begin() + n1, v.end());
            bool allin = true;
            for (auto& q : in) allin = allin && on_ell(q, irx, iry);
            if (n1 >= 2 && in.size() >= 2 && allin) {
                std::reverse(in.begin(), in.end());
                loop(rx, ry, o, false, "outer");
                loop(irx, iry, in, false, "inner");
            } else {
                std::string id = out.add("ellipse", head + " | skip split");
                out.I(id, "arc 0");
                out.P(id, "FAIL ellipse:on-curve ring vertices are not an outer loop followed by an inner loop");
            }
            out.count(full ? "ellipse:ring" : "ellipse:ring-slice");
        } else if (full) {
            loop(rx, ry, v, true, "full");
            out.count("ellipse:full");
        } else {
            if (v.empty() || !(v[0].x == cx && v[0].y == cy)) {
                std::string id = out.add("ellipse", head + " | skip centre");
                out.I(id, "arc 0");
                out.P(id, "FAIL ellipse:centre slice does not start at the centre");
            } else {
                std::vector<Vec2> o(v.begin() + 1, v.end());
                loop(rx, ry, o, false, "slice");
            }
            out.count("ellipse:slice");
        }
        p.clear();
    } else if (kind == "racetrack" && a.size() >= 7) {
        // cx cy straight radius inner vertical tol
        double cx = a[0], cy = a[1], L = a[2], r = a[3], ir = a[4], tol = a[6];
        bool vertical = a[5] != 0;
        Polygon p = racetrack(Vec2{cx, cy}, L, r, ir, vertical, tol, 0);
        std::vector<Vec2> v;
        for (uint64_t i = 0; i < p.point_array.count; i++) v.push_back(p.point_array[i]);
        double ia = vertical ? 0 : -M_PI / 2;
        Vec2 dir = vertical ? Vec2{0, L / 2} : Vec2{L / 2, 0};
        Vec2 c1 = Vec2{cx, cy} + dir, c2 = Vec2{cx, cy} - dir;
        auto on_c = [&](const Vec2& q, const Vec2& cc, double rr) {
            ld x = ((ld)q.x - cc.x) / rr, y = ((ld)q.y - cc.y) / rr;
            return fabsl(x * x + y * y - 1) < 1e-9L;
        };
        // layout: np around c1, np around c2 [, v[0], np_i + 1 ... inner]
        size_t total = v.size(), h = 0, npi = 0;
        if (ir > 0) {
            // inner block: 1 (copy of v[0]) + 1 (inner start) + 2*npi
            size_t m = 0;
            while (m < total && (on_c(v[m], c1, r) || on_c(v[m], c2, r))) m++;
            // m = 2h + 1
            h = m >= 1 ? (m - 1) / 2 : 0;
            npi = total >= 2 * h + 2 ? (total - 2 * h - 2) / 2 : 0;
        } else
            h = total / 2;
        bool bnd;
        uint64_t np = 1 + expected_arc_points(M_PI, r, tol, bnd);
        if (np < GDSTK_MIN_POINTS) np = GDSTK_MIN_POINTS;
        std::string fail;
        if (h < np && !(bnd && h + 1 == np))
            fail = "FAIL racetrack:count " + std::to_string(h) + " points per half turn, formula gives " + std::to_string(np);
        if (h >= 2 && 2 * h <= total) {
            ArcInfo A = {};
            A.rx = A.ry = r; A.cr = 1; A.sr = 0; A.nseg = h - 1;
            A.cx = c1.x; A.cy = c1.y; A.a0 = ia; A.a1 = ia + M_PI;
            emit_arcloop(out, "racetrack", head + " # half1", tol, A, std::vector<Vec2>(v.begin(), v.begin() + h), fail, 4.0);
            A.cx = c2.x; A.cy = c2.y; A.a0 = ia + M_PI; A.a1 = ia + 2 * M_PI;
            emit_arcloop(out, "racetrack", head + " # half2", tol, A, std::vector<Vec2>(v.begin() + h, v.begin() + 2 * h), fail, 4.0);
            if (ir > 0 && npi >= 2 && total == 2 * h + 2 * npi + 2) {
                // then: c2 - rad (i = npi..1) written through v2, c1 + rad (i = npi..1) through v1 = v2 + npi
                std::vector<Vec2> i2(v.begin() + 2 * h + 2, v.begin() + 2 * h + 2 + npi);
                std::vector<Vec2> i1(v.begin() + 2 * h + 2 + npi, v.end());
                std::reverse(i1.begin(), i1.end());
                std::reverse(i2.begin(), i2.end());
                A.rx = A.ry = ir; A.nseg = npi - 1;
                A.cx = c1.x; A.cy = c1.y; A.a0 = ia; A.a1 = ia + M_PI;
                emit_arcloop(out, "racetrack", head + " # inner1", tol, A, i1, "", 4.0);
                A.cx = c2.x; A.cy = c2.y; A.a0 = ia + M_PI; A.a1 = ia + 2 * M_PI;
                emit_arcloop(out, "racetrack", head + " # inner2", tol, A, i2, "", 4.0);
            }
        } else {
            std::string id = out.add("racetrack", head + " | skip");
            out.I(id, "arc 0");
            out.P(id, fail.empty() ? "FAIL racetrack:count too few vertices" : fail);
        }
        out.count(ir > 0 ? "racetrack:ring" : "racetrack:solid");
        p.clear();
    } else if (kind == "fillet" && !w.empty() && w[0] == "P") {
        // P tol n x y ... m r ...   (whole polygon, radii cycled over the vertices); anything after '#' names a sub-case
        std::vector<std::string> ww;
        for (auto& x : w) {
            if (x == "#") break;
            ww.push_back(x);
        }
        FilletCase f;
        if (!parse_fillet(ww, f)) { out.count("bad-desc"); return; }
        run_fillet_poly(out, f, fmt_fillet(f));
    } else if (kind == "fillet" && a.size() >= 5) {
        // tol radius corner n x y x y ...   (simple polygon; only corner `corner` gets a radius, the others radius 0
        // and keep their single vertex): the same oracle with a per-vertex radius array
        size_t j = (size_t)a[2], n = (size_t)a[3];
        if (a.size() < 4 + 2 * n || j >= n) return;
        FilletCase f;
        f.tol = a[0];
        for (size_t i = 0; i < n; i++) {
            f.in.push_back(Vec2{a[4 + 2 * i], a[5 + 2 * i]});
            f.radii.push_back(i == j ? a[1] : 0.0);
        }
        std::string hd;
        for (size_t i = 0; i < 4 + 2 * n; i++) hd += (i ? " " : "") + w[i];
        run_fillet_poly(out, f, hd, true);
        out.count("fillet:single-corner-form");
    }
}

static void bezier_single_point(Out& out);
// ---------------------------------------------------------------- case entry (also used by corpus / replay)
static void run_case(Out& out, const std::string& kind, const std::string& payload) {
    if (kind == "rectangle" || kind == "cross" || kind == "regular_polygon" || kind == "ellipse" || kind == "racetrack" || kind == "fillet") {
        run_shape(out, kind, payload);
        return;
    }
    CurveDesc d;
    if (!parse_desc(payload, d)) {
        out.count("bad-desc");
        return;
    }
    for (auto& c : d.calls)
        if (c.kind == "bezier" && c.pts.size() < 2) {
            bezier_single_point(out);
            return;
        }
    run_curve(out, d);
}

// ---------------------------------------------------------------- generators
struct Gen {
    Rng& g;
    double s;      // feature size (power of two)
    double unit;   // coordinate grid s/1024
    explicit Gen(Rng& r) : g(r) {
        int k = (int)g.range(-6, 9);
        s = ldexp(1.0, k);
        unit = s / 1024;
    }
    double coord(int64_t lo, int64_t hi) { return (double)g.range(lo, hi) * unit; }
    Vec2 rnd() { return Vec2{coord(-1024, 1024), coord(-1024, 1024)}; }
    // n control points after the start (offsets from the start), by shape class
    std::vector<Vec2> points(size_t n, std::string& cls) {
        std::vector<Vec2> p(n);
        switch (g.below(9)) {
            case 0:
            case 1: {  // control directions within a quarter turn: increments in an open quadrant cone
                cls = "fan";
                Vec2 acc = {0, 0};
                double cx = (double)g.range(1, 8), cy = (double)g.range(0, 8);
                int64_t sg = g.coin() ? 1 : -1, sh = g.coin() ? 1 : -1;
                for (size_t i = 0; i < n; i++) {
                    // directions (a, b) with a > 0, b >= 0 rotated into one quadrant: span < 90 degrees
                    double a = (double)g.range(1, 400), b = (double)g.range(0, 400);
                    (void)cx; (void)cy;
                    acc.x += sg * a * unit;
                    acc.y += sh * b * unit * (g.chance(80) ? 1 : 0);
                    p[i] = acc;
                }
            } break;
            case 2: {  // general position
                cls = "random";
                for (auto& q : p) q = rnd();
            } break;
            case 3: {  // collinear, possibly doubling back
                cls = "collinear";
                int64_t dx = g.range(-8, 8), dy = g.range(-8, 8);
                if (dx == 0 && dy == 0) dx = 1;
                for (auto& q : p) {
                    int64_t m = g.range(-100, 100);
                    q = Vec2{(double)(dx * m) * unit, (double)(dy * m) * unit};
                }
            } break;
            case 4: {  // near collinear: one grid unit off a line, monotone
                cls = "near-collinear";
                int64_t dx = g.range(1, 8), dy = g.range(-8, 8);
                int64_t m = 0;
                for (auto& q : p) {
                    m += g.range(1, 60);
                    q = Vec2{(double)(dx * m) * unit, (double)(dy * m + g.range(-1, 1)) * unit};
                }
            } break;
            case 5: {  // coincident control points
                cls = "coincident";
                Vec2 base = rnd();
                for (size_t i = 0; i < n; i++) p[i] = (i > 0 && g.chance(50)) ? p[i - 1] : (g.chance(30) ? Vec2{0, 0} : base = rnd());
                if (g.chance(15)) for (auto& q : p) q = Vec2{0, 0};
            } break;
            case 6: {  // hairpin / cusp: out and back with a small offset
                cls = "hairpin";
                double L = coord(200, 1024), w = (double)g.range(0, 3) * unit;
                for (size_t i = 0; i < n; i++) {
                    double f = (i + 1 < n) ? 1.0 : 0.0;
                    p[i] = Vec2{L * f, (i * 2 >= n) ? w : 0};
                }
            } break;
            case 7: {  // tiny: the whole section is a few grid units
                cls = "tiny";
                for (auto& q : p) q = Vec2{(double)g.range(-3, 3) * unit, (double)g.range(-3, 3) * unit};
            } break;
            default: {  // smooth S / loop shapes
                cls = "loop";
                for (size_t i = 0; i < n; i++) {
                    double ang = (double)(i + 1) * (double)g.range(1, 6) * 0.5;
                    p[i] = Vec2{round(cos(ang) * 600) * unit, round(sin(ang) * 600) * unit};
                }
            }
        }
        return p;
    }
    double tolerance() {  // 1e-6 .. 10 of the feature size, log uniform
        double u = -6.0 + 7.0 * (double)g.below(1000001) / 1e6;
        return s * pow(10.0, u);
    }
    double angle_any() {
        switch (g.below(6)) {
            case 0: return (double)g.range(-8, 8) * (M_PI / 4);
            case 1: return ((double)g.below(2000001) / 1e6 - 1.0) * 4 * M_PI;  // up to two turns, any sign
            case 2: return ((double)g.below(2000001) / 1e6 - 1.0) * 0.1;
            case 3: return (g.coin() ? 1 : -1) * (2 * M_PI + (double)g.below(1000) * 1e-3);
            default: return ((double)g.below(2000001) / 1e6 - 1.0) * M_PI;
        }
    }
};

static CurveDesc gen_curve(Rng& g, Out& out, bool thorough) {
    Gen G(g);
    CurveDesc d;
    d.tol = G.tolerance();
    d.start = g.chance(30) ? Vec2{0, 0} : G.rnd();
    size_t nc = 1 + (size_t)g.below(4);
    bool cmdable = g.chance(35);
    d.via_commands = cmdable;
    Vec2 cur = d.start;  // grid estimate of the current point (exact while no arc occurred)
    bool exact = true;
    auto snap = [&](Vec2 v) { return Vec2{round(v.x / G.unit) * G.unit, round(v.y / G.unit) * G.unit}; };
    for (size_t ci = 0; ci < nc; ci++) {
        Call c;
        c.rel = g.coin();
        int pick = (int)g.below(cmdable ? 9 : 16);
        std::string cls;
        auto place = [&](std::vector<Vec2> offs) {  // offsets -> arguments (relative or absolute)
            for (auto& o : offs) c.pts.push_back(c.rel ? o : snap(cur) + o);
            if (!offs.empty()) cur = snap(cur) + offs.back();
        };
        double tolratio = d.tol / G.s;
        switch (pick) {
            case 0: c.kind = "segment"; place(G.points(1, cls)); break;
            case 1: c.kind = g.coin() ? "horizontal" : "vertical"; {
                double v = G.coord(-1024, 1024);
                bool h = c.kind == "horizontal";
                c.pts.push_back(Vec2{c.rel ? v : (h ? snap(cur).x : snap(cur).y) + v, 0});
                if (h) cur.x = snap(cur).x + v; else cur.y = snap(cur).y + v;
            } break;
            case 2: c.kind = "cubic"; place(G.points(3, cls)); break;
            case 3: c.kind = "cubic_smooth"; place(G.points(2, cls)); break;
            case 4: c.kind = "quadratic"; place(G.points(2, cls)); break;
            case 5: c.kind = "quad_smooth"; place(G.points(1, cls)); break;
            case 6: {  // turn
                c.kind = "turn";
                c.rel = false;
                double r = G.s * (double)g.range(1, 64) / 16;
                double ang = G.angle_any();
                if (ang == 0) ang = 1;
                // keep the number of chords reasonable
                double lim = (thorough ? 6000.0 : 1500.0) * 2 * sqrt(2 * std::min(1.0, d.tol / r));
                if (fabs(ang) > lim) ang = ang > 0 ? lim : -lim;
                c.num = {r, ang};
                cur = cur + Vec2{r, r};
                exact = false;
            } break;
            case 7:
            case 8: {  // arc: circular or elliptical, any rotation
                c.kind = "arc";
                c.rel = false;
                double rx = G.s * (double)g.range(1, 64) / 16, ry = rx;
                int m = (int)g.below(5);
                if (m == 0) ry = G.s * (double)g.range(1, 64) / 16;
                if (m == 1) ry = rx * (g.coin() ? 0.01 : 100);
                double rot = (m == 0 || m == 1 || g.chance(30)) ? (g.chance(50) ? G.angle_any() : atan2(4.0, 3.0)) : 0;
                if (cmdable && rx == ry) rot = 0;
                double a0 = G.angle_any(), span = G.angle_any();
                if (span == 0) span = 0.5;
                if (m == 1 && g.chance(50)) {  // a short stretch around an end of the long axis
                    a0 = (ry < rx ? 0.0 : M_PI / 2) + (g.coin() ? M_PI : 0.0) + rot - 0.03 * (double)g.below(100) / 100;
                    span = 0.06 * (double)(1 + g.below(100)) / 100;
                }
                double rm = std::max(rx, ry);
                double lim = (thorough ? 6000.0 : 1500.0) * 2 * sqrt(2 * std::min(1.0, d.tol / rm));
                if (fabs(span) > lim) span = span > 0 ? lim : -lim;
                c.num = {rx, ry, a0, a0 + span, rot};
                cur = cur + Vec2{rx, ry};
                exact = false;
            } break;
            case 9: c.kind = "segments"; place(G.points(1 + g.below(3), cls)); break;
            case 10: c.kind = g.coin() ? "horizontals" : "verticals"; {
                size_t n = 1 + g.below(3);
                bool h = c.kind == "horizontals";
                double base = h ? snap(cur).x : snap(cur).y, last = 0;
                for (size_t i = 0; i < n; i++) {
                    last = G.coord(-1024, 1024);
                    c.pts.push_back(Vec2{c.rel ? last : base + last, 0});
                }
                if (h) cur.x = base + last; else cur.y = base + last;
            } break;
            case 11: {  // several sections in one call
                int w = (int)g.below(4);
                size_t per = w == 0 ? 3 : (w == 3 ? 1 : 2);
                c.kind = w == 0 ? "cubic" : (w == 1 ? "cubic_smooth" : (w == 2 ? "quadratic" : "quad_smooth"));
                std::vector<Vec2> all;
                Vec2 base = {0, 0};
                size_t ns = 2 + g.below(2);
                for (size_t sI = 0; sI < ns; sI++) {
                    std::vector<Vec2> o = G.points(per, cls);
                    for (auto& q : o) all.push_back(base + q);
                    base = all.back();
                }
                place(all);
            } break;
            case 12: c.kind = "quad_smooth1"; place(G.points(1, cls)); break;
            case 13: {  // general Bezier, 2..8 points
                c.kind = "bezier";
                place(G.points(2 + g.below(7), cls));
            } break;
            case 14: {  // interpolation
                c.kind = "interp";
                c.cycle = g.chance(25);
                size_t n = 1 + g.below(4);
                std::vector<Vec2> o = G.points(n, cls);
                // hobby's system is singular for repeated points: keep them distinct and off the start
                bool bad = false;
                for (size_t i = 0; i < o.size(); i++) {
                    if (o[i].x == 0 && o[i].y == 0) bad = true;
                    for (size_t j = 0; j < i; j++) if (o[i].x == o[j].x && o[i].y == o[j].y) bad = true;
                }
                if (bad) { o.clear(); Vec2 acc = {0, 0}; for (size_t i = 0; i < n; i++) { acc = acc + Vec2{G.coord(1, 500), G.coord(-500, 500)}; o.push_back(acc); } cls = "fan"; }
                const Vec2 before = cur;
                place(o);
                if (c.cycle) cur = before;  // a closed interpolation returns to its first point
                double tin = g.chance(70) ? 1.0 : 0.75 + (double)g.below(200) / 100, tout = g.chance(70) ? 1.0 : 0.75 + (double)g.below(200) / 100;
                c.num = {tin, tout, g.chance(70) ? 1.0 : (double)g.below(300) / 100, g.chance(70) ? 1.0 : (double)g.below(300) / 100};
                if (g.chance(30))  // tangent directions imposed at some of the points (closed curves included)
                    for (size_t i = 0; i <= o.size(); i++) {
                        c.num.push_back(g.chance(40) ? 1.0 : 0.0);
                        c.num.push_back(G.angle_any());
                    }
            } break;
            default: {  // parametric: a cubic through a callback; f(0) = 0 (relative) or the current point
                c.kind = "param";
                std::vector<Vec2> o = G.points(3, cls);
                if (!exact) c.rel = true;  // absolute needs f(0) == current point exactly
                c.pts.push_back(c.rel ? Vec2{0, 0} : cur);
                for (auto& q : o) c.pts.push_back(c.rel ? q : snap(cur) + q);
                cur = snap(cur) + o.back();
            }
        }
        if (!cls.empty()) out.count("ctrl:" + cls);
        (void)tolratio;
        d.calls.push_back(c);
    }
    char b[32];
    snprintf(b, sizeof b, "tol/feature:1e%d", (int)floor(log10(d.tol / G.s)));
    out.count(b);
    return d;
}

static std::string dd(double v) { return hex_dbl(v); }

static void gen_shape(Rng& g, Out& out, bool thorough) {
    Gen G(g);
    (void)thorough;
    switch (g.below(7)) {
        case 0: {
            Vec2 a = G.rnd(), b = G.rnd();
            run_case(out, "rectangle", dd(a.x) + " " + dd(a.y) + " " + dd(b.x) + " " + dd(b.y));
        } break;
        case 1: {
            Vec2 c = G.rnd();
            double full = G.coord(2, 2048), arm = G.coord(1, 1024);
            run_case(out, "cross", dd(c.x) + " " + dd(c.y) + " " + dd(full) + " " + dd(arm));
        } break;
        case 2: {
            Vec2 c = G.rnd();
            double side = G.s * (double)g.range(1, 1000) / 100;
            uint64_t sides = 3 + g.below(g.chance(10) ? 500 : 12);
            double rot = G.angle_any();
            run_case(out, "regular_polygon", dd(c.x) + " " + dd(c.y) + " " + dd(side) + " " + dd((double)sides) + " " + dd(rot));
        } break;
        case 3:
        case 4: {
            Vec2 c = G.rnd();
            double rx = G.s * (double)g.range(4, 64) / 16, ry = g.chance(50) ? rx : G.s * (double)g.range(4, 64) / 16;
            double irx = 0, iry = 0;
            if (g.chance(40)) { irx = rx * (double)g.range(1, 7) / 8; iry = ry * (double)g.range(1, 7) / 8; if (g.chance(50)) iry = irx * ry / rx; }
            double a0 = 0, a1 = 0;
            if (g.chance(50)) { a0 = G.angle_any(); double sp = G.angle_any(); if (fabs(sp) > 2 * M_PI) sp = fmod(sp, 2 * M_PI); if (sp == 0) sp = 1; a1 = a0 + sp; }
            double tol = G.tolerance();
            if (tol < 1e-5 * G.s) tol = 1e-5 * G.s;
            run_case(out, "ellipse", dd(c.x) + " " + dd(c.y) + " " + dd(rx) + " " + dd(ry) + " " + dd(irx) + " " + dd(iry) + " " + dd(a0) + " " + dd(a1) + " " + dd(tol));
        } break;
        case 5: {
            Vec2 c = G.rnd();
            double L = G.coord(0, 2048), r = G.s * (double)g.range(4, 64) / 16, ir = g.chance(50) ? 0 : r * (double)g.range(1, 7) / 8;
            double tol = G.tolerance();
            if (tol < 1e-5 * G.s) tol = 1e-5 * G.s;
            run_case(out, "racetrack", dd(c.x) + " " + dd(c.y) + " " + dd(L) + " " + dd(r) + " " + dd(ir) + " " + dd(g.coin() ? 1.0 : 0.0) + " " + dd(tol));
        } break;
        default: {
            // convex polygon from sorted directions, or an L shape (one reflex corner)
            size_t n = 3 + g.below(5);
            std::vector<Vec2> pts;
            if (g.chance(70)) {
                std::vector<double> angs;
                for (size_t i = 0; i < n; i++) angs.push_back((double)g.below(36000) / 36000.0 * 2 * M_PI);
                std::sort(angs.begin(), angs.end());
                for (size_t i = 0; i < n; i++) {
                    if (i > 0 && angs[i] - angs[i - 1] < 0.05) continue;
                    pts.push_back(Vec2{round(cos(angs[i]) * 800) * G.unit, round(sin(angs[i]) * 800) * G.unit});
                }
                if (pts.size() < 3) pts = {Vec2{0, 0}, Vec2{G.s, 0}, Vec2{0, G.s}};
            } else {
                double u = G.s;
                pts = {Vec2{0, 0}, Vec2{2 * u, 0}, Vec2{2 * u, u}, Vec2{u, u}, Vec2{u, 2 * u}, Vec2{0, 2 * u}};
            }
            double tol = G.tolerance();
            if (tol < 1e-5 * G.s) tol = 1e-5 * G.s;
            if (tol > 0.2 * G.s) tol = 0.2 * G.s;
            double radius = G.s * (double)g.range(1, 400) / 200;
            std::string s = dd(tol) + " " + dd(radius) + " " + dd((double)g.below(pts.size())) + " " + dd((double)pts.size());
            for (auto& p : pts) s += " " + dd(p.x) + " " + dd(p.y);
            run_case(out, "fillet", s);
        }
    }
}

// ---------------------------------------------------------------- fillet: whole polygons
// Shapes: axis rectangles (square, 5:1 like the 10 x 2 regression input, long thin, random), rotated rectangles, regular
// polygons, convex polygons inscribed in an ellipse, L / plus / U shapes (reflex corners, two adjacent reflex corners),
// stars and star-shaped polygons; both orientations, any start vertex.  Radii relative to what fits at a corner
// (below / exactly the fitting radius / half the shorter edge / between / half the longer edge / above / huge / of the order
// of the tolerance), as one value, one value per vertex (with zeros, first and last different) or a shorter cycled array.
// Tolerance 1e-2 or 1e-3 of the feature size (feature size 1 in half of the cases).
static void gen_fillet_poly(Rng& g, Out& out) {
    Gen G(g);
    if (g.coin()) { G.s = 1; G.unit = 1.0 / 1024; }
    FilletCase f;
    f.tol = (g.coin() ? 1e-2 : 1e-3) * G.s;
    std::vector<Vec2> q;  // grid units
    auto P = [&](double x, double y) { q.push_back(Vec2{x, y}); };
    const char* shape = "";
    switch (g.below(12)) {
        case 0:
        case 1:
        case 2: {
            double W, H;
            switch (g.below(5)) {
                case 0: W = H = (double)g.range(64, 1024); shape = "square"; break;
                case 1: { double k = (double)g.range(8, 100); W = 10 * k; H = 2 * k; shape = "rect-5:1"; } break;
                case 2: W = (double)g.range(512, 2048); H = (double)g.range(4, 16); shape = "rect-thin"; break;
                case 3: { double k = (double)g.range(8, 100); W = 2 * k; H = 10 * k; shape = "rect-1:5"; } break;
                default: W = (double)g.range(8, 1024); H = (double)g.range(8, 1024); shape = "rect-random";
            }
            P(0, 0); P(W, 0); P(W, H); P(0, H);
        } break;
        case 3: {
            shape = "rect-rotated";
            double W = (double)g.range(64, 1024), H = (double)g.range(16, 1024), t = (double)g.below(36000) / 36000 * 2 * M_PI;
            double c = cos(t), s = sin(t);
            P(0, 0); P(round(W * c), round(W * s)); P(round(W * c - H * s), round(W * s + H * c)); P(round(-H * s), round(H * c));
        } break;
        case 4:
        case 5: {
            shape = "regular";
            size_t k = 3 + g.below(10);
            double R = (double)g.range(200, 1000), t0 = (double)g.below(36000) / 36000 * 2 * M_PI;
            if (g.chance(30)) t0 = 0;
            for (size_t i = 0; i < k; i++) P(round(R * cos(t0 + 2 * M_PI * i / k)), round(R * sin(t0 + 2 * M_PI * i / k)));
        } break;
        case 6: {
            shape = "convex";
            size_t k = 3 + g.below(7);
            double a = (double)g.range(300, 1000), b = a * (double)g.range(35, 100) / 100;
            std::vector<double> angs;
            for (size_t i = 0; i < k; i++) angs.push_back((double)g.below(36000) / 36000.0 * 2 * M_PI);
            std::sort(angs.begin(), angs.end());
            for (size_t i = 0; i < k; i++) {
                if (i > 0 && angs[i] - angs[i - 1] < 0.2) continue;
                if (i + 1 == k && q.size() > 0 && angs[0] + 2 * M_PI - angs[i] < 0.2) continue;
                P(round(a * cos(angs[i])), round(b * sin(angs[i])));
            }
            if (q.size() < 3) { q.clear(); P(0, 0); P(a, 0); P(0, b); }
        } break;
        case 7: {
            shape = "L";
            double W = (double)g.range(128, 1024), H = (double)g.range(128, 1024), w1 = (double)g.range(16, (int64_t)W - 16), h1 = (double)g.range(16, (int64_t)H - 16);
            P(0, 0); P(W, 0); P(W, h1); P(w1, h1); P(w1, H); P(0, H);
        } break;
        case 8: {
            shape = "plus";
            double c = (double)g.range(16, 300), a = (double)g.range(8, 400), b = g.coin() ? a : (double)g.range(8, 400);
            P(a, 0); P(a + c, 0); P(a + c, b); P(2 * a + c, b); P(2 * a + c, b + c); P(a + c, b + c);
            P(a + c, 2 * b + c); P(a, 2 * b + c); P(a, b + c); P(0, b + c); P(0, b); P(a, b);
        } break;
        case 9: {
            shape = "U";
            double W = (double)g.range(200, 1024), H = (double)g.range(100, 1024), a = (double)g.range(8, (int64_t)(W / 2) - 8), b = (double)g.range(8, (int64_t)H - 8);
            P(0, 0); P(W, 0); P(W, H); P(W - a, H); P(W - a, b); P(a, b); P(a, H); P(0, H);
        } break;
        case 10: {
            shape = "star";
            size_t k = 4 + g.below(5);
            double Ro = (double)g.range(600, 1000), Ri = Ro * (double)g.range(45, 85) / 100, t0 = (double)g.below(36000) / 36000 * 2 * M_PI;
            for (size_t i = 0; i < 2 * k; i++) {
                double R = (i & 1) ? Ri : Ro;
                P(round(R * cos(t0 + M_PI * i / k)), round(R * sin(t0 + M_PI * i / k)));
            }
        } break;
        default: {
            shape = "star-shaped";
            size_t k = 5 + g.below(6);
            std::vector<double> angs;
            for (size_t i = 0; i < k; i++) angs.push_back((double)g.below(36000) / 36000.0 * 2 * M_PI);
            std::sort(angs.begin(), angs.end());
            for (size_t i = 0; i < k; i++) {
                if (i > 0 && angs[i] - angs[i - 1] < 0.35) continue;
                if (i + 1 == k && q.size() > 0 && angs[0] + 2 * M_PI - angs[i] < 0.35) continue;
                double R = (double)g.range(300, 1000);
                P(round(R * cos(angs[i])), round(R * sin(angs[i])));
            }
            // gaps above a half turn would put the centre outside: fall back to a kite
            bool wide = q.size() < 4;
            for (size_t i = 0; i + 1 < q.size() && !wide; i++)
                if (orient_ld(Vec2{0, 0}, q[i], q[i + 1]) <= 0) wide = true;
            if (!wide && orient_ld(Vec2{0, 0}, q.back(), q[0]) <= 0) wide = true;
            if (wide) { q.clear(); P(0, -600); P(300, 0); P(0, 200); P(-300, 0); }
        }
    }
    out.count(std::string("fillet-shape:") + shape);
    if (g.coin()) std::reverse(q.begin(), q.end());
    std::rotate(q.begin(), q.begin() + g.below(q.size()), q.end());
    Vec2 off = {(double)g.range(-1024, 1024), (double)g.range(-1024, 1024)};
    if (g.chance(30)) off = Vec2{0, 0};
    for (auto& p : q) f.in.push_back(Vec2{(p.x + off.x) * G.unit, (p.y + off.y) * G.unit});
    const size_t n = f.in.size();
    // the radius classes, relative to corner i
    auto radius_for = [&](size_t i) -> double {
        const Vec2 &p0 = f.in[(i + n - 1) % n], &p1 = f.in[i], &p2 = f.in[(i + 1) % n];
        Vec2 a = p1 - p0, b = p2 - p1;
        double l0 = a.length(), l1 = b.length(), lo = std::min(l0, l1), hi = std::max(l0, l1);
        double th = atan2(fabs(a.cross(b)), a.inner(b)), tt = tan(th / 2);
        double fit = tt > 1e-6 ? (lo - f.tol) / (2 * tt) : lo;
        if (fit < 0) fit = lo / 2;
        switch (g.below(9)) {
            case 0: return fit * (double)g.range(10, 90) / 100;
            case 1: return fit;
            case 2: return lo / 2;
            case 3: return hi > lo ? (lo + hi) / 4 : 0.75 * lo;
            case 4: return hi / 2;
            case 5: return hi * (double)g.range(60, 200) / 100;
            case 6: return hi * (double)g.range(10, 100);
            case 7: return f.tol * ldexp(1.0, (int)g.range(-2, 2));
            default: return fit * (double)g.range(101, 150) / 100;
        }
    };
    switch (g.below(10)) {
        case 0:
        case 1:
        case 2:
        case 3: f.radii.push_back(radius_for(g.below(n))); break;
        case 4:
        case 5:
        case 6:
            for (size_t i = 0; i < n; i++) f.radii.push_back(g.chance(25) ? 0.0 : radius_for(i));
            break;
        case 7:
        case 8: {  // first and last entries different
            for (size_t i = 0; i < n; i++) f.radii.push_back(radius_for(i));
            if (f.radii[0] == f.radii[n - 1]) f.radii[n - 1] = f.radii[0] * (g.coin() ? 0.5 : 0.25);
        } break;
        default: {
            size_t m = 2 + g.below(n > 3 ? std::min<size_t>(n - 2, 3) : 1);
            for (size_t i = 0; i < m; i++) f.radii.push_back(g.chance(25) ? 0.0 : radius_for(g.below(n)));
        }
    }
    run_case(out, "fillet", fmt_fillet(f));
}

// fixed fillet inputs of every campaign: the 10 x 2 rectangle with radius 3 (too large for every corner; at two corners the
// incoming edge is the short one, at the other two the outgoing one), both orientations and tolerances; a per-vertex array
// with zeros; and the polygons with a repeated last vertex (finding fillet:repeated-vertex-crash)
static void fillet_known(Out& out) {
    for (int o = 0; o < 2; o++)
        for (int t = 0; t < 2; t++) {
            FilletCase f;
            f.tol = t ? 1e-3 : 1e-2;
            f.in = {Vec2{0, 0}, Vec2{10, 0}, Vec2{10, 2}, Vec2{0, 2}};
            if (o) std::reverse(f.in.begin(), f.in.end());
            f.radii = {3.0};
            run_case(out, "fillet", fmt_fillet(f));
        }
    {
        FilletCase f;
        f.tol = 1e-3;
        f.in = {Vec2{0, 0}, Vec2{10, 0}, Vec2{10, 2}, Vec2{0, 2}};
        f.radii = {0.5, 0.0, 3.0, 1.0};
        run_case(out, "fillet", fmt_fillet(f));
    }
    {  // regular hexagon of side 1, radius 2: the inscribed circle (radius 0.866 > half the edge: the documented rule differs)
        FilletCase f;
        f.tol = 1e-3;
        for (int i = 0; i < 6; i++) f.in.push_back(Vec2{cos(M_PI * i / 3), sin(M_PI * i / 3)});
        f.radii = {2.0};
        run_case(out, "fillet", fmt_fillet(f));
    }
    {
        FilletCase f;
        f.tol = 1e-2;
        f.in = {Vec2{0, 0}, Vec2{4, 0}, Vec2{4, 4}, Vec2{4, 4}};
        f.radii = {1.0};
        run_case(out, "fillet", fmt_fillet(f));
        f.in = {Vec2{0, 0}, Vec2{4, 0}, Vec2{4, 4}, Vec2{0, 0}, Vec2{0, 0}};
        run_case(out, "fillet", fmt_fillet(f));
        f.in = {Vec2{0, 0}, Vec2{4, 0}, Vec2{4, 0}, Vec2{4, 4}, Vec2{0, 0}};  // repeated inside + closing vertex: handled
        run_case(out, "fillet", fmt_fillet(f));
    }
}

// the inputs of the defects F11 / F12 / F17 (fixed by 66f871b / 4b3b094 / 7a14b8c) run first on every campaign
// as regression cases
static void known_inputs(Out& out) {
    {  // F11: hairpin at tolerance 0.01
        CurveDesc d;
        d.tol = 0.01;
        Call c;
        c.kind = "cubic";
        c.pts = {Vec2{1, 0}, Vec2{1, 0.001}, Vec2{0, 0.001}};
        d.calls.push_back(c);
        run_curve(out, d);
    }
    {  // F11: a curve smaller than the tolerance, control directions within a quarter turn
        CurveDesc d;
        d.tol = 0.01;
        Call c;
        c.kind = "cubic";
        c.pts = {Vec2{ldexp(1.0, -10), 0}, Vec2{ldexp(2.0, -10), ldexp(1.0, -10)}, Vec2{ldexp(3.0, -10), ldexp(3.0, -10)}};
        d.calls.push_back(c);
        run_curve(out, d);
    }
    {  // F12 as first probed: 4 vertices over a parameter span of 0.32 rad before the fix (the deviation was
       // only 0.18 tol: this stretch of the ellipse is nearly straight).
        CurveDesc d;
        d.tol = 0.01;
        Call c;
        c.kind = "arc";
        c.num = {100, 1, 0.01, 0.02, 0};
        d.calls.push_back(c);
        run_curve(out, d);
    }
    {  // F12 around the end of the major axis (radius of curvature 0.01): 3 chords over 2.2 rad of parameter
       // before the fix (673 tol)
        CurveDesc d;
        d.tol = 0.01;
        Call c;
        c.kind = "arc";
        c.num = {100, 1, -0.02, 0.02, 0};
        d.calls.push_back(c);
        run_curve(out, d);
    }
    {  // F17, then a smooth section that consumes the wrong last_ctrl
        CurveDesc d;
        d.tol = 0.01;
        d.start = Vec2{100, 100};
        Call c;
        c.kind = "bezier";
        c.rel = true;
        c.pts = {Vec2{1, 0}, Vec2{2, 1}, Vec2{3, 0}};
        d.calls.push_back(c);
        Call s;
        s.kind = "cubic_smooth";
        s.rel = true;
        s.pts = {Vec2{1, 1}, Vec2{2, 0}};
        d.calls.push_back(s);
        run_curve(out, d);
    }
}

// "Single Bezier section defined by any number of control points": one point (a straight line written as a
// Bezier) makes append_bezier evaluate an empty second-derivative polygon: eval_bezier(t, d2p, 0) loops from
// count - 1 = 2^64 - 1.  Run in a child; the model answers None (out-of-bounds read) for fewer than 2 points.
static void bezier_single_point(Out& out) {
    CurveDesc d;
    d.tol = 0.01;
    Call c;
    c.kind = "bezier";
    c.pts = {Vec2{1, 1}};
    d.calls.push_back(c);
    std::string r = in_child([](FILE* o) {
        Curve cv = {};
        cv.init(Vec2{0, 0}, 0.01);
        Array<Vec2> p = {};
        p.append(Vec2{1, 1});
        cv.bezier(p, false);
        fprintf(o, "returned %llu", (unsigned long long)cv.point_array.count);
    });
    std::string data = "poly " + std::to_string(g_budget) + " " + hex_dbl(d.tol) + " " + hd2(Vec2{0, 0}) + " " + hd2(Vec2{0, 0}) +
                       " bezier 0 0 1 " + hd2(Vec2{1, 1}) + " 0 0";
    std::string id = out.add("bezier", fmt_desc(d) + " # single | " + data);
    bool crashed = r.compare(0, 5, "CRASH") == 0 || r == "HANG";
    out.I(id, crashed ? "crash" : r);
    out.P(id, crashed ? "FAIL Curve::bezier:single-point-crash bezier() with one control point: " + r : "ok");
}

int main(int argc, char** argv) {
    if (argc < 4) {
        fprintf(stderr, "usage: c15 seed tier outdir [corpus] [replay]\n");
        return 2;
    }
    uint64_t seed = strtoull(argv[1], NULL, 10);
    bool thorough = strcmp(argv[2], "thorough") == 0;
    if (thorough) g_budget = 384;
    if (thorough) g_fillet_arc_every = 4;
    set_error_logger(NULL);
    Out out;
    out.open(argv[3]);
    if (argc > 5) {
        std::string k, p;
        if (load_replay(argv[5], k, p)) run_case(out, k, p);
        out.close();
        return 0;
    }
    for (auto& c : load_corpus(argc > 4 ? argv[4] : NULL)) run_case(out, c.first, c.second);
    known_inputs(out);
    bezier_single_point(out);
    Rng g(seed);
    long NC = thorough ? 6000 : 200, NS = thorough ? 3000 : 120;
    for (long i = 0; i < NC; i++) {
        CurveDesc d = gen_curve(g, out, thorough);
        run_curve(out, d);
    }
    for (long i = 0; i < NS; i++) gen_shape(g, out, thorough);
    // whole-polygon fillets (their own stream position: after the shapes, so the earlier cases of a seed are unchanged)
    fillet_known(out);
    for (long i = 0, NF = thorough ? 5000 : 240; i < NF; i++) gen_fillet_poly(g, out);
    out.count("grid:inexact-conversions", g_inexact);
    for (auto& kv : g_stats.maxratio) out.count("maxdev-permille:" + kv.first, (long)llround(kv.second * 1000));
    out.close();
    return 0;
}
