#!/usr/bin/env python3
"""Regenerate MANIFEST.json from checks/c*.py (CONFIG['manifest'] present => claimed)."""
import glob, importlib, json, os, sys
ROOT = os.path.normpath(os.path.join(os.path.dirname(os.path.abspath(__file__)), ".."))
sys.path.insert(0, ROOT)
props = [json.loads(l) for l in open(os.path.join(ROOT, "properties.jsonl"))]
PENDING = {}
try:
    PENDING = json.load(open(os.path.join(ROOT, "tools", "not_applicable.json")))
except Exception:
    pass
checks, claimed = [], []
for p in props:
    pid = p["id"]
    f = os.path.join(ROOT, "checks", pid.lower() + ".py")
    if not os.path.exists(f):
        continue
    mod = importlib.import_module("checks." + pid.lower())
    m = mod.CONFIG.get("manifest")
    if not m:
        continue
    claimed.append(pid)
    checks.append({"property_id": pid, "quick_cmd": "bin/check %s --tier quick" % pid,
                   "thorough_cmd": "bin/check %s --tier thorough" % pid,
                   "evidence_file": "/verif/evidence/%s.json" % pid,
                   "replay_cmd_template": "bin/check %s --replay {path}" % pid, "engine": "coq+extraction",
                   "level_claimed": {"category": "proof", "text": m["level_text"], "design_ref": "DESIGN.md section 5 (%s)" % pid},
                   "level_note": m["level_note"], "technique": m["technique"]})
hooks = json.load(open(os.path.join(ROOT, "tools", "hooks.json")))
man = {"version": 1, "setup_cmd": "bin/setup", "hooks": hooks,
       "engines": [{"name": "coq+extraction", "path": "/verif/bin/check", "serves_properties": claimed,
                    "kind_free_text": "Coq 8.16 proofs over Gallina models; source-derived constants regenerated per run; extracted OCaml model run against the real library (differential) with a property-level oracle"}],
       "checks": checks,
       "not_applicable": [{"property_id": p["id"], "reason": PENDING.get(p["id"], "check under construction in this session; not claimed until its quick command passes on the unchanged tree")}
                          for p in props if p["id"] not in claimed],
       "notes": "See DESIGN.md. Every check: translator -> coqc -> rebuild /repo working tree -> harness + extracted model -> evidence. fix: commits in /repo are listed in known_findings.json."}
json.dump(man, open(os.path.join(ROOT, "MANIFEST.json"), "w"), indent=1)
print("claimed:", claimed)
