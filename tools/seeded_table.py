#!/usr/bin/env python3
"""seeded_table.py: write seeded/README.md, the table of confirmed seeded changes and what the checks reported."""
import json, os
VERIF = os.path.normpath(os.path.join(os.path.dirname(os.path.abspath(__file__)), ".."))
sd = os.path.join(VERIF, "seeded")
rows = []
for i in sorted(os.listdir(sd)):
    mf = os.path.join(sd, i, "meta.json")
    if not os.path.exists(mf):
        continue
    m = json.load(open(mf))
    c = m.get("check_result", {})
    how = "failing input" if c.get("with_failing_input") else ("no-failing-input-found" if c.get("detected") else "NOT DETECTED")
    rows.append("| %s | %s | %s | %s | %s | %s |" % (i, m["property"], (m.get("title") or "").replace("|", "/"),
                                                ((m.get("needs_to_manifest") or "")[:160]).replace("|", "/").replace("\n", " "),
                                                how, c.get("finding_key") or ""))
txt = ("# Seeded changes (confirmed) and what the checks report\n\n"
       "Each directory holds `patch.diff` (against /repo HEAD at the time it was confirmed), `demo.cpp` and `meta.json`.\n"
       "Procedure and the strengthening that followed from misses: DESIGN.md section 0.6.\n\n"
       "| id | property | change | needs to manifest | reported with | finding key |\n|---|---|---|---|---|---|\n" + "\n".join(rows) + "\n")
open(os.path.join(sd, "README.md"), "w").write(txt)
print(len(rows), "rows")
