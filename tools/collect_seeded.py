#!/usr/bin/env python3
"""collect_seeded.py <src-dir> : copy confirmed seeded changes (patch.diff, demo.cpp, meta.json + our result.json) into
/verif/seeded/<id>/ with a consolidated meta.json. A change is kept only when everything was confirmed by run_seeded.py:
patch applies, repository tests pass with it, the demonstration passes without and fails with the change."""
import json, os, shutil, sys
VERIF = os.path.normpath(os.path.join(os.path.dirname(os.path.abspath(__file__)), ".."))
src = sys.argv[1]
kept = []
for i in sorted(os.listdir(src)):
    sd = os.path.join(src, i)
    rf = os.path.join(sd, "result.json")
    if not os.path.exists(rf):
        continue
    r = json.load(open(rf)); m = json.load(open(os.path.join(sd, "meta.json")))
    ok = r.get("patch_applies") and r.get("ctest_passes_with_change") and r.get("demo_passes_without_change") and r.get("demo_fails_with_change")
    if not ok:
        print("NOT kept:", i, {k: r.get(k) for k in ("patch_applies", "ctest_passes_with_change", "demo_passes_without_change", "demo_fails_with_change")})
        continue
    dd = os.path.join(VERIF, "seeded", i)
    os.makedirs(dd, exist_ok=True)
    shutil.copy(os.path.join(sd, "patch.diff"), dd); shutil.copy(os.path.join(sd, "demo.cpp"), dd)
    meta = {"id": i, "property": r["property"], "title": m.get("title"), "what_breaks": m.get("what_breaks"),
            "needs_to_manifest": m.get("needs_to_manifest"), "files": m.get("files"),
            "origin": "written by an independent sub-agent that saw only the property text and a scratch worktree of /repo",
            "what_we_ran": "tools/run_seeded.py: scratch worktree of /repo HEAD; demo built against the tree without and with the patch; "
                           "cmake build + examples + ctest with the patch; then `VERIF_REPO=<patched worktree> bin/check %s --tier quick`" % r["property"],
            "confirmed": {k: r.get(k) for k in ("patch_applies", "ctest_passes_with_change", "demo_passes_without_change", "demo_fails_with_change")},
            "check_result": {"detected": r.get("detected"), "with_failing_input": r.get("with_failing_input"), "finding_key": r.get("replay_key"),
                             "what": r.get("replay_what"), "wall_s": r.get("check_wall_s"), "lines": r.get("check_lines")}}
    json.dump(meta, open(os.path.join(dd, "meta.json"), "w"), indent=1)
    kept.append((i, r.get("detected"), r.get("with_failing_input"), r.get("replay_key")))
for k in kept:
    print(k)
