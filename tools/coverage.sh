#!/bin/bash
# coverage.sh [workdir]: line coverage of /repo/src by the quick tier of every harness (gcov).  Not part of any check: a
# measurement used to aim the generators (DESIGN.md section 0.8).  Builds instrumented objects of /repo, links every
# harness of checks/c*.py against them (-DVERIF_COVERAGE makes forked children dump their counters), runs each with seed 1
# and prints the gcovr table plus the gdstk functions that were never executed.
set -e
W=${1:-/tmp/verif-coverage}
rm -rf "$W"; mkdir -p "$W/obj" "$W/run"
FLAGS="-std=c++11 -O0 -g -DNDEBUG -DGDSTK_VERIF -DVERIF_COVERAGE --coverage -I/repo/include -I/repo/external"
( cd "$W/obj"; for f in /repo/src/*.cpp /repo/external/clipper/clipper.cpp; do g++ $FLAGS -c $f -o $(basename $f .cpp).o & done; wait )
python3 - "$W" <<'PY'
import importlib, os, subprocess, sys, glob
sys.path.insert(0, "/verif")
W = sys.argv[1]; OBJ = W + "/obj"
FLAGS = "-std=c++11 -O0 -g -DNDEBUG -DGDSTK_VERIF -DVERIF_COVERAGE --coverage -I/repo/include -I/repo/external -I/verif/harness -I/repo/src".split()
done = set()
for p in sorted(glob.glob("/verif/checks/c[0-9][0-9].py")):
    prop = os.path.basename(p)[:-3]
    cfg = importlib.import_module("checks." + prop).CONFIG
    for u in (cfg.get("units") or [cfg]):
        h, kinds = u.get("harness"), u.get("kinds", "")
        if not h or (h, kinds) in done: continue
        done.add((h, kinds))
        inc = u.get("include_cpp", [])
        objs = [o for o in glob.glob(OBJ + "/*.o") if os.path.basename(o)[:-2] + ".cpp" not in inc]
        exe = "%s/run/%s" % (W, h)
        if not os.path.exists(exe):
            r = subprocess.run(["g++"] + FLAGS + ['-DVERIF_REPO_SRC="/repo/src"', "/verif/harness/%s.cpp" % h, "-o", exe] + objs + ["-lz", "-lqhull_r"],
                               cwd=W + "/run", stdout=subprocess.PIPE, stderr=subprocess.STDOUT, text=True)
            if r.returncode: print("BUILD FAIL", h, r.stdout[-300:]); continue
        out = "%s/run/out-%s-%s" % (W, h, prop); os.makedirs(out, exist_ok=True)
        env = dict(os.environ)
        if kinds: env["VERIF_KINDS"] = kinds
        r = subprocess.run([exe, "1", "quick", out, "/verif/corpus/" + prop.upper()], cwd=W + "/run", env=env, stdout=subprocess.DEVNULL, stderr=subprocess.DEVNULL, timeout=3000)
        print(prop, h, "rc", r.returncode, flush=True)
PY
gcovr -r /repo --object-directory "$W/obj" "$W/obj" "$W/run" --filter '/repo/src/' 2>/dev/null | tail -25
