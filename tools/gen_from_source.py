#!/usr/bin/env python3
"""Translator: regenerates coq/Generated.v from /repo's *current* sources.

What is extracted (regular expressions over named places in the source):
  * every `enum struct` in include/gdstk/{oasis,gdsii,repetition,utils,pathcommon}.hpp -> `Definition <Enum>_<Member> : N`
  * #define constants of utils.hpp (map tuning, FNV, GDSTK_MIN_POINTS)
  * the literal masks / limits inside the OASIS integer codecs of src/oasis.cpp
  * sort.hpp thresholds
  * the CTRAPEZOID vertex table of read_oas (src/library.cpp), as a list of point-expression rows
A parse failure raises; bin/check turns that into a broken tie.
The file is rewritten only when its content changes (keeps make's dependency cone quiet).
"""
import re, sys, os

REPO = os.environ.get("VERIF_REPO", "/repo")
OUT = os.path.join(os.path.dirname(os.path.abspath(__file__)), "..", "coq", "Generated.v")


class GenError(Exception):
    pass


def read(rel):
    with open(os.path.join(REPO, rel), encoding="utf-8", errors="replace") as f:
        return f.read()


def strip_comments(s):
    s = re.sub(r"/\*.*?\*/", "", s, flags=re.S)
    s = re.sub(r"//[^\n]*", "", s)
    return s


def parse_enums(text):
    text = strip_comments(text)
    res = {}
    for m in re.finditer(r"enum\s+struct\s+(\w+)\s*(?::\s*\w+\s*)?\{(.*?)\}", text, flags=re.S):
        name, body = m.group(1), m.group(2)
        val = -1
        members = []
        for item in body.split(","):
            item = item.strip()
            if not item:
                continue
            mm = re.match(r"(\w+)\s*(?:=\s*(.+))?$", item, flags=re.S)
            if not mm:
                raise GenError("enum %s: cannot parse member %r" % (name, item))
            if mm.group(2) is not None:
                v = mm.group(2).strip()
                try:
                    val = int(v, 0)
                except ValueError:
                    raise GenError("enum %s: non-literal value %r" % (name, v))
            else:
                val += 1
            members.append((mm.group(1), val))
        res[name] = members
    return res


def define(text, name):
    m = re.search(r"#define\s+%s\s+(\S+)" % re.escape(name), text)
    if not m:
        raise GenError("#define %s not found" % name)
    return int(m.group(1), 0)


def func_body(text, signature_regex):
    """return the brace-balanced body of the first function whose header matches."""
    m = re.search(signature_regex, text)
    if not m:
        raise GenError("function /%s/ not found" % signature_regex)
    i = text.index("{", m.end() - 1)
    depth = 0
    for j in range(i, len(text)):
        if text[j] == "{":
            depth += 1
        elif text[j] == "}":
            depth -= 1
            if depth == 0:
                return text[i:j + 1]
    raise GenError("unbalanced braces after /%s/" % signature_regex)


def find_int(body, regex, what):
    m = re.search(regex, body)
    if not m:
        raise GenError("pattern for %s not found: /%s/" % (what, regex))
    return int(m.group(1), 0)


def switch_groups(body, switch_regex, label_regex, resolve, what):
    """Case labels of the first switch matching switch_regex inside `body`, at the nesting depth of that switch only,
    grouped: consecutive labels with no statement between them share a body (fall-through group)."""
    m = re.search(switch_regex, body)
    if not m:
        raise GenError("switch not found: " + what)
    i = body.index("{", m.end() - 1) if body[m.end() - 1] != "{" else m.end() - 1
    depth = 0
    j = i
    groups, cur = [], []
    pos = i
    n = len(body)
    text_since_label = ""
    while pos < n:
        c = body[pos]
        if c == "{":
            depth += 1
            if depth > 1:
                text_since_label += c
            pos += 1
            continue
        if c == "}":
            depth -= 1
            if depth == 0:
                break
            text_since_label += c
            pos += 1
            continue
        if depth == 1:
            lm = re.match(r"\s*(case\s+(" + label_regex + r")\s*:|default\s*:)", body[pos:])
            if lm and (pos == 0 or not (body[pos - 1].isalnum() or body[pos - 1] == "_")):
                if text_since_label.strip(" \t\r\n{};") != "" and cur:
                    groups.append(cur)
                    cur = []
                elif text_since_label.strip(" \t\r\n{};") != "":
                    pass
                text_since_label = ""
                if lm.group(2):
                    cur.append(resolve(lm.group(2)))
                else:
                    if cur:
                        groups.append(cur)
                    cur = []
                    groups.append(["default"])
                pos += lm.end()
                continue
        text_since_label += c
        pos += 1
    if cur:
        groups.append(cur)
    groups = [g for g in groups if g != ["default"]]
    if not groups:
        raise GenError("no case labels: " + what)
    return groups


def gen():
    """Returns (text, partial): the Coq text and a list of (group, error) for groups that could not be generated.
    Every group is translated independently: a construct the patterns no longer recognise leaves ITS definitions out of
    Generated.v (with a comment saying so), so that exactly the Coq files - and hence the properties - that depend on them stop
    compiling, instead of every check failing."""
    out = []
    partial = []
    w = out.append
    w("(* GENERATED by tools/gen_from_source.py from %s -- do not edit, not committed *)" % REPO)
    w("From Coq Require Import NArith ZArith List String.")
    w("Import ListNotations.")
    w("Local Open Scope N_scope.")
    w("")
    enums = {}

    def group(name, fn):
        lines = []
        try:
            fn(lines.append)
        except GenError as e:
            partial.append((name, str(e)))
            w("(* GROUP %s NOT GENERATED: %s *)" % (name, str(e).replace("(*", "( *").replace("*)", "* )")))
            w("")
            return
        except (KeyError, IndexError, ValueError, FileNotFoundError) as e:
            partial.append((name, "%s: %s" % (type(e).__name__, e)))
            w("(* GROUP %s NOT GENERATED: %s *)" % (name, type(e).__name__))
            w("")
            return
        out.extend(lines)
        w("")

    def g_enums(w):
        for hdr in ["include/gdstk/oasis.hpp", "include/gdstk/gdsii.hpp", "include/gdstk/repetition.hpp",
                    "include/gdstk/utils.hpp", "include/gdstk/pathcommon.hpp", "include/gdstk/property.hpp",
                    "include/gdstk/polygon.hpp", "include/gdstk/reference.hpp", "include/gdstk/clipper_tools.hpp"]:
            try:
                e = parse_enums(read(hdr))
            except FileNotFoundError:
                raise GenError("missing header " + hdr)
            enums.update(e)
        for need in ["OasisDataType", "OasisDirection", "OasisPointList", "OasisRecord", "OasisRepetition",
                     "GdsiiRecord", "GdsiiDataType", "RepetitionType", "ErrorCode"]:
            if need not in enums:
                raise GenError("enum %s not found" % need)
        for name in sorted(enums):
            w("(* enum %s *)" % name)
            for mem, val in enums[name]:
                w("Definition %s_%s : N := %d." % (name, mem, val))
            w("Definition %s_members : list (string * N) := [%s]." % (
                name, "; ".join('("%s"%%string, %d)' % (m, v) for m, v in enums[name])))
            w("")
    group("enums", g_enums)

    def g_tuning(w):
        utils = read("include/gdstk/utils.hpp")
        for d in ["GDSTK_MIN_POINTS", "GDSTK_MAP_GROWTH_FACTOR", "GDSTK_INITIAL_MAP_CAPACITY",
                  "GDSTK_MAP_CAPACITY_THRESHOLD", "HASH_FNV_PRIME", "HASH_FNV_OFFSET"]:
            w("Definition %s : N := %d." % (d, define(utils, d)))
    group("tuning-constants", g_tuning)

    # --- OASIS integer codec literals (one group per function)
    def g_oas_ru(w):
        oas = strip_comments(read("src/oasis.cpp"))
        b = func_body(oas, r"uint64_t\s+oasis_read_unsigned_integer\s*\(OasisStream&\s*in\)\s*\{")
        w("Definition oas_ru_mask : N := %d." % find_int(b, r"result\s*=\s*\(uint64_t\)\(byte\s*&\s*(0x[0-9A-Fa-f]+)\)", "ru mask"))
        w("Definition oas_ru_cont : N := %d." % find_int(b, r"while\s*\(byte\s*&\s*(0x[0-9A-Fa-f]+)\)", "ru cont"))
        w("Definition oas_ru_first_bits : N := %d." % find_int(b, r"num_bits\s*=\s*(\d+)\s*;", "ru first bits"))
        w("Definition oas_ru_limit_bits : N := %d." % find_int(b, r"num_bits\s*==\s*(\d+)", "ru limit"))
        w("Definition oas_ru_limit_byte : N := %d." % find_int(b, r"byte\s*>\s*(\d+)\)", "ru limit byte"))
        w("Definition oas_ru_step : N := %d." % find_int(b, r"num_bits\s*\+=\s*(\d+)", "ru step"))
    group("oasis_read_unsigned_integer", g_oas_ru)

    def g_oas_ri(w):
        oas = strip_comments(read("src/oasis.cpp"))
        b = func_body(oas, r"static\s+uint8_t\s+oasis_read_int_internal\s*\(")
        w("Definition oas_ri_first_bits : N := %d." % find_int(b, r"num_bits\s*=\s*(\d+)\s*-\s*skip_bits", "ri first"))
        w("Definition oas_ri_guard_bits : N := %d." % find_int(b, r"num_bits\s*>\s*(\d+)\s*&&", "ri guard"))
        w("Definition oas_ri_shift_base : N := %d." % find_int(b, r"byte\s*>>\s*\((\d+)\s*-\s*num_bits\)", "ri shift"))
        w("Definition oas_ri_step : N := %d." % find_int(b, r"num_bits\s*\+=\s*(\d+)", "ri step"))
    group("oasis_read_int_internal", g_oas_ri)

    def g_oas_wu(w):
        oas = strip_comments(read("src/oasis.cpp"))
        b = func_body(oas, r"void\s+oasis_write_unsigned_integer\s*\(")
        w("Definition oas_wu_mask : N := %d." % find_int(b, r"value\s*&\s*(0x[0-9A-Fa-f]+)\)\s*\}", "wu mask"))
        w("Definition oas_wu_shift : N := %d." % find_int(b, r"value\s*>>=\s*(\d+)", "wu shift"))
        w("Definition oas_wu_cont : N := %d." % find_int(b, r"\|=\s*(0x[0-9A-Fa-f]+)", "wu cont"))
    group("oasis_write_unsigned_integer", g_oas_wu)

    # --- sort thresholds
    def g_sort(w):
        srt = strip_comments(read("include/gdstk/sort.hpp"))
        b = func_body(srt, r"void\s+intro_sort\s*\(")
        w("Definition sort_insertion_threshold : N := %d." % find_int(b, r"count\s*<=\s*(\d+)\s*\)\s*\{\s*insertion_sort", "sort threshold"))
    group("sort-threshold", g_sort)

    # --- remove_property: is the head loop guarded against emptying the list?
    def g_remove_property(w):
        prop = strip_comments(read("src/property.cpp"))
        b = func_body(prop, r"uint64_t\s+remove_property\s*\(")
        guarded = re.search(r"if\s*\(\s*!all_occurences\s*\|\|\s*properties\s*==\s*NULL\s*\)\s*return", b) is not None or \
            re.search(r"while\s*\(\s*properties\s*&&", b) is not None and re.search(r"if\s*\(\s*properties\s*==\s*NULL\s*\)\s*return", b) is not None
        w("Definition remove_property_guard : bool := %s." % ("true" if guarded else "false"))
    group("remove_property-guard", g_remove_property)

    # --- GDSII real constants
    def g_gds_real(w):
        gds = strip_comments(read("src/gdsii.cpp"))
        b = func_body(gds, r"uint64_t\s+gdsii_real_from_double\s*\(")
        w("Definition gds_real_bias : N := %d." % find_int(b, r"\(uint8_t\)\((\d+)\s*\+\s*exponent\)", "bias"))
        w("Definition gds_real_digits : N := %d." % find_int(b, r"pow\(16,\s*(\d+)\s*-\s*exponent\)", "digits"))
        w("Definition gds_real_mant_mask : N := %d." % find_int(b, r"mantissa\s*&\s*(0x[0-9A-Fa-f]+)", "mant mask"))
    group("gdsii_real_from_double", g_gds_real)

    # --- dispatch structure of the GDSII readers: case labels of their record switches, grouped by shared body
    def res_enum(lbl):
        gr = dict(enums["GdsiiRecord"])
        nm = lbl.split("::")[-1]
        if nm not in gr:
            raise GenError("unknown GdsiiRecord member " + nm)
        return gr[nm]
    def res_hex(lbl):
        return int(lbl, 0)
    def fmt(groups):
        return "[" + "; ".join("[" + "; ".join(str(x) for x in g) + "]" for g in groups) + "]"

    def g_read_gds(w):
        lib0 = strip_comments(read("src/library.cpp"))
        b = func_body(lib0, r"Library\s+read_gds\s*\(")
        w("Definition read_gds_case_groups : list (list N) := %s." % fmt(
            switch_groups(b, r"switch\s*\(\s*\(GdsiiRecord\)\s*\(?buffer\[2\]\)?\s*\)\s*\{", r"GdsiiRecord::\w+", res_enum, "read_gds")))
    group("read_gds-switch", g_read_gds)

    def g_gds_info(w):
        lib0 = strip_comments(read("src/library.cpp"))
        b = func_body(lib0, r"ErrorCode\s+gds_info\s*\(")
        w("Definition gds_info_case_groups : list (list N) := %s." % fmt(
            switch_groups(b, r"switch\s*\(\s*\(GdsiiRecord\)\s*\(?buffer\[2\]\)?\s*\)\s*\{", r"GdsiiRecord::\w+", res_enum, "gds_info")))
    group("gds_info-switch", g_gds_info)

    def g_rawcells(w):
        raw0 = strip_comments(read("src/rawcell.cpp"))
        b = func_body(raw0, r"Map<RawCell\*>\s+read_rawcells\s*\(")
        w("Definition read_rawcells_case_groups : list (list N) := %s." % fmt(
            switch_groups(b, r"switch\s*\(\s*buffer\[2\]\s*\)\s*\{", r"0x[0-9A-Fa-f]+|\d+|GdsiiRecord::\w+", lambda l: res_enum(l) if "::" in l else res_hex(l), "read_rawcells")))
    group("read_rawcells-switch", g_rawcells)

    # --- record switch of read_oas
    def res_orec(lbl):
        orec = dict(enums["OasisRecord"])
        nm = lbl.split("::")[-1]
        if nm not in orec:
            raise GenError("unknown OasisRecord member " + nm)
        return orec[nm]

    def g_read_oas(w):
        lib0 = strip_comments(read("src/library.cpp"))
        b = func_body(lib0, r"Library\s+read_oas\s*\(")
        w("Definition read_oas_case_groups : list (list N) := %s." % fmt(
            switch_groups(b, r"switch\s*\(\s*record\s*\)\s*\{", r"OasisRecord::\w+", res_orec, "read_oas")))
    group("read_oas-switch", g_read_oas)

    # --- CTRAPEZOID table of read_oas
    def g_ctrap(w):
        lib = strip_comments(read("src/library.cpp"))
        m = re.search(r"case\s+OasisRecord::CTRAPEZOID\s*:", lib)
        if not m:
            raise GenError("CTRAPEZOID case not found")
        seg = lib[m.end():]
        m2 = re.search(r"case\s+OasisRecord::CIRCLE\s*:", seg)
        if not m2:
            raise GenError("end of CTRAPEZOID case not found")
        seg = seg[:m2.start()]
        rows = parse_ctrapezoid(seg)
        w("(* CTRAPEZOID table of read_oas: per type, the vertex offsets from (x,y) as linear forms")
        w("   in (w,h): each coordinate is (cw, ch) meaning cw*w + ch*h; *)")
        w("Definition ctrap_table : list (N * list ((Z * Z) * (Z * Z))) := [")
        lines = []
        for t, verts in rows:
            vs = "; ".join("((%d, %d), (%d, %d))%%Z" % (a, b_, c, d) for (a, b_), (c, d) in verts)
            lines.append("  (%d, [%s])" % (t, vs))
        w(";\n".join(lines))
        w("].")
    group("ctrapezoid-table", g_ctrap)
    return "\n".join(out) + "\n", partial


def parse_ctrapezoid(seg):
    """Parse the `switch (modal_ctrapezoid_type)` block: for each case N the vertex assignments
    v[k] = / v[k].x = ... expressed with modal_geom_dim.x (w) and .y (h)."""
    m = re.search(r"switch\s*\(\s*modal_ctrapezoid_type\s*\)", seg)
    if not m:
        raise GenError("ctrapezoid switch not found")
    body = func_body(seg[m.start():], r"switch\s*\(\s*modal_ctrapezoid_type\s*\)\s*\{")
    parts = re.split(r"case\s+(\d+)\s*:", body)
    rows = []
    # parts: [pre, n0, body0, n1, body1, ...]; fallthrough (empty body) is not used in gdstk here
    for i in range(1, len(parts), 2):
        t = int(parts[i])
        cb = parts[i + 1]
        rows.append((t, cb))
    have = set(t for t, _ in rows)
    missing = [t for t in list(range(24)) + [25] if t not in have]
    if missing:
        raise GenError("ctrapezoid cases missing: %r" % missing)
    if 24 not in have:
        rows.append((24, ""))  # type 24 is the unmodified w x h rectangle (no case label in the C++)
    rows.sort()
    result = []
    for t, cb in rows:
        verts = parse_ctrap_case(cb, t)
        result.append((t, verts))
    return result


def lin(expr, t):
    """linear form in w=modal_geom_dim.x, h=modal_geom_dim.y -> (cw, ch). Accepts sums/differences of
    optionally scaled (2 *) terms, and 0."""
    e = expr.replace(" ", "").replace("modal_geom_dim.x", "w").replace("modal_geom_dim.y", "h")
    if e in ("0", "0.0"):
        return (0, 0)
    cw = ch = 0
    toks = re.findall(r"([+-]?)(?:(\d+)\*)?([wh])", e)
    rebuilt = "".join("%s%s%s" % (s, (n + "*") if n else "", v) for s, n, v in toks)
    if rebuilt != e and "+" + rebuilt != e:
        raise GenError("ctrapezoid type %d: cannot parse linear form %r" % (t, expr))
    for s, n, v in toks:
        k = int(n) if n else 1
        if s == "-":
            k = -k
        if v == "w":
            cw += k
        else:
            ch += k
    return (cw, ch)


def parse_ctrap_case(cb, t):
    # The C++ starts from  v = [pos,pos,pos] (types 16..23) or the w x h rectangle (other types)
    # and then applies `v[k].x += e;  v[k].y -= e;  v[k] += e;` statements.  We execute those
    # symbolically on linear forms in (w,h).
    if 15 < t < 24:
        st = [[(0, 0), (0, 0)] for _ in range(3)]
    else:
        st = [[(0, 0), (0, 0)], [(1, 0), (0, 0)], [(1, 0), (0, 1)], [(0, 0), (0, 1)]]
    seen = False
    for stmt in cb.split(";"):
        s = stmt.strip()
        if not s or s.startswith("break") or s.startswith("}") or s.startswith("default"):
            continue
        mm = re.match(r"v\[(\d)\](?:\.(x|y))?\s*(\+=|-=)\s*(.+)$", s, flags=re.S)
        if mm:
            k = int(mm.group(1))
            if k >= len(st):
                raise GenError("ctrapezoid type %d: vertex index %d out of range" % (t, k))
            e = lin(mm.group(4), t)
            sg = 1 if mm.group(3) == "+=" else -1
            for c in ([0, 1] if mm.group(2) is None else [0 if mm.group(2) == "x" else 1]):
                a = st[k][c]
                st[k][c] = (a[0] + sg * e[0], a[1] + sg * e[1])
            seen = True
            continue
        mm = re.match(r"((?:v\[\d\]\.(?:x|y)\s*=\s*)+)modal_geom_pos\.(x|y)\s*\+\s*(.+)$", s, flags=re.S)
        if mm:
            e = lin(mm.group(3), t)
            for kk, cc in re.findall(r"v\[(\d)\]\.(x|y)", mm.group(1)):
                if cc != mm.group(2):
                    raise GenError("ctrapezoid type %d: mixed coordinates in %r" % (t, s))
                st[int(kk)][0 if cc == "x" else 1] = e
            seen = True
            continue
        if re.match(r"modal_geom_dim\.(x|y)\s*=", s):
            continue  # modal side effect, modelled in the reader model not in the table
        if re.match(r"if\s*\(|in\.error_code|fputs|error_logger", s) or "error_logger" in s:
            continue
        # anything else inside a case is unknown to the translator
        if t <= 25:
            raise GenError("ctrapezoid type %d: unrecognised statement %r" % (t, s))
    return [(v[0], v[1]) for v in st]


def main():
    try:
        text, partial = gen()
    except GenError as e:
        print("GEN-ERROR: %s" % e)
        return 2
    out = os.path.normpath(OUT)
    old = None
    if os.path.exists(out):
        with open(out) as f:
            old = f.read()
    if old != text:
        with open(out, "w") as f:
            f.write(text)
        print("generated (changed): %s" % out)
    else:
        print("generated (unchanged): %s" % out)
    for name, err in partial:
        print("GEN-PARTIAL: group %s not generated: %s" % (name, err))
    return 0


if __name__ == "__main__":
    sys.exit(main())
