#!/usr/bin/env python3
"""run_seeded.py <dir-with-seeded-changes> [ids...]
For each <dir>/<ID>/ (patch.diff, demo.cpp, meta.json):
  1. confirm in a scratch worktree under /tmp that the patch applies, the library builds, the repository's
     own test suite passes, the demo exits 0 without the change and non-zero with it;
  2. apply the patch to /repo, run `bin/check <property>` (quick), undo the patch (git checkout -- .);
  3. record the outcome in <ID>/result.json and print one line per change.
Nothing is committed to /repo."""
import json, os, re, shutil, subprocess, sys, time
VERIF = os.path.normpath(os.path.join(os.path.dirname(os.path.abspath(__file__)), ".."))
REPO = "/repo"


def sh(cmd, cwd=None, timeout=3600, env=None):
    p = subprocess.run(cmd, shell=True, cwd=cwd, stdout=subprocess.PIPE, stderr=subprocess.STDOUT, text=True, timeout=timeout, env=env)
    return p.returncode, p.stdout


def build_demo(tree, demo, out):
    srcs = " ".join(sorted(os.path.join(tree, "src", f) for f in os.listdir(os.path.join(tree, "src")) if f.endswith(".cpp")))
    txt = open(demo).read()
    # demos may #include a src/*.cpp to reach statics: leave that file out of the link list
    for m in re.finditer(r'#include\s+"(?:\.\./)*(?:src/)?(\w+\.cpp)"', txt):
        srcs = " ".join(s for s in srcs.split() if not s.endswith("/" + m.group(1)))
    cmd = "g++ -std=c++11 -O1 -g -DNDEBUG -I%s/include -I%s/external -I%s -I%s/src %s %s %s/external/clipper/clipper.cpp -lz -lqhull_r -o %s" % (
        tree, tree, tree, tree, demo, srcs, tree, out)
    return sh(cmd, timeout=900)


def main():
    d = sys.argv[1]
    ids = sys.argv[2:] or sorted(x for x in os.listdir(d) if os.path.isdir(os.path.join(d, x)))
    for i in ids:
        sd = os.path.join(d, i)
        patch = os.path.join(sd, "patch.diff")
        demo = os.path.join(sd, "demo.cpp")
        if not (os.path.exists(patch) and os.path.exists(demo)):
            print(i, "incomplete"); continue
        meta = json.load(open(os.path.join(sd, "meta.json")))
        prop = meta.get("property", i.split("-")[0])
        res = {"id": i, "property": prop}
        check_only = os.environ.get("SEEDED_CHECK_ONLY") and os.path.exists(os.path.join(sd, "result.json"))
        if check_only:  # demo / ctest outcomes were confirmed by an earlier full run: re-run the check only
            res = json.load(open(os.path.join(sd, "result.json")))
        wt = "/tmp/seedwt-%s" % i
        sh("git -C %s worktree remove --force %s" % (REPO, wt))
        rc, out = sh("git -C %s worktree add --detach %s HEAD" % (REPO, wt))
        try:
            if check_only:
                rc, out = sh("git apply %s" % patch, cwd=wt)
                res["patch_applies"] = rc == 0
                raise_skip = True
            else:
                raise_skip = False
            # baseline demo
            rc, out = (0, "") if raise_skip else build_demo(wt, demo, "/tmp/seed-demo-%s" % i)
            if not raise_skip:
                res["demo_builds"] = rc == 0
                rc0, out0 = sh("timeout 120 /tmp/seed-demo-%s" % i, cwd=wt) if rc == 0 else (99, out[-500:])
                res["demo_passes_without_change"] = rc0 == 0
                rc, out = sh("git apply %s" % patch, cwd=wt)
                res["patch_applies"] = rc == 0
            if rc == 0 and not raise_skip:
                rc, out = build_demo(wt, demo, "/tmp/seed-demo-%s" % i)
                rc1, out1 = sh("timeout 120 /tmp/seed-demo-%s" % i, cwd=wt) if rc == 0 else (99, out[-500:])
                res["demo_fails_with_change"] = rc1 != 0
                res["demo_output_with_change"] = out1[-400:]
                rc, out = sh("cmake -G Ninja -S . -B _build -DCMAKE_BUILD_TYPE=RelWithDebInfo > /dev/null && cmake --build _build -j16 > /dev/null && (cmake --build _build -j16 --target examples > /dev/null 2>&1 || true) && ctest --test-dir _build -j1 --timeout 900 2>&1 | tail -3", cwd=wt, timeout=1800)
                res["ctest_passes_with_change"] = "100% tests passed" in out
            # the check, against the patched scratch worktree (VERIF_REPO): /repo itself stays untouched so that
            # other work in this sandbox never sees a seeded change
            if res.get("patch_applies"):
                sh("rm -rf _build", cwd=wt)
                env = dict(os.environ, VERIF_REPO=wt)
                t0 = time.time()
                rc, out = sh("bin/check %s --tier quick" % prop, cwd=VERIF, timeout=3000, env=env)
                res["check_exit"] = rc
                res["check_wall_s"] = round(time.time() - t0, 1)
                res["check_lines"] = [l[:300] for l in out.splitlines() if l.startswith("VIOLATION") or l.startswith(prop + ":")]
                res["detected"] = rc == 1 and any(l.startswith("VIOLATION") for l in out.splitlines())
                res["with_failing_input"] = any(l.startswith("VIOLATION") and "no-failing-input-found" not in l for l in out.splitlines())
                m = re.search(r"replay=(\S+)", out)
                if m and os.path.exists(m.group(1)):
                    try:
                        rp = json.load(open(m.group(1)))
                        res["replay_key"] = rp.get("key")
                        res["replay_what"] = str(rp.get("what") or rp.get("no_longer_checks"))[:300]
                    except Exception:
                        pass
        finally:
            sh("git -C %s worktree remove --force %s" % (REPO, wt))
            try: os.remove("/tmp/seed-demo-%s" % i)
            except OSError: pass
        json.dump(res, open(os.path.join(sd, "result.json"), "w"), indent=1)
        print(i, {k: v for k, v in res.items() if k in ("patch_applies", "ctest_passes_with_change", "demo_passes_without_change", "demo_fails_with_change", "detected", "with_failing_input", "replay_key")})
    shutil.rmtree(os.path.join(VERIF, "replays"), ignore_errors=True)


if __name__ == "__main__":
    main()
